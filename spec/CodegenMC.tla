----------------------------- MODULE CodegenMC -----------------------------
(***************************************************************************)
(* Program families for Codegen.tla (cfg files cannot spell records).      *)
(* Every family is an explicit, bounded set of programs; together they are *)
(* the enumerated shape space of C01/C02/C14:                              *)
(*   Shape    every type constructor over every leaf class (depth 1, and   *)
(*            depth 2 in the thorough tier), sole reference to its package *)
(*   Ident    the adversarial identifier alphabet x every position         *)
(*   Pkgs     ordered tuples of packages whose names collide x source name *)
(*   Embed    embedding DAGs (local, foreign, stdlib, instantiated,        *)
(*            overlapping, depth 3)                                        *)
(*   Generic  type parameters x constraints, named instantiations          *)
(*   MName    method / interface names (unexported, keyword-adjacent,      *)
(*            non-ASCII, the mock's own API: outside the guarantee)        *)
(*   Local    local declarations named like imports / template locals,     *)
(*            unnamed parameters (generated names)                         *)
(*   Variadic element type class of a variadic parameter x parameters      *)
(*            before it (crossed with unroll-variadic by the harness)      *)
(***************************************************************************)
EXTENDS Codegen

Int == B("int")
Str == B("string")
Err == B("error")
Bool == B("bool")
AnyT == B("any")

Decl(tpl, es, mths) == [tps |-> tpl, es |-> es, ms |-> mths]
TPar(n, cn) == [n |-> n, c |-> cn]
P(pid, fam, feat, srcname, decls, target) ==
  [pid |-> pid, fam |-> fam, feat |-> feat, srcname |-> srcname, decls |-> decls, target |-> target,
   targets |-> <<target>>, form |-> "lit", guarantee |-> TRUE, idclass |-> "ordinary", ident |-> "", pos |-> "",
   localtypes |-> UNION {UNION {LocalNamesVars(d.ms[i].ps) \cup LocalNamesVars(d.ms[i].rs) : i \in 1..Len(d.ms)}
                         \cup UNION {LocalNames(d.tps[i].c) : i \in 1..Len(d.tps)} : d \in Range(decls)}]
One(n, d) == (n :> d)

(* ------------------------------------------------------------------------ *)
(* Shape                                                                    *)
LeafBasic   == {B(n) : n \in {"int", "string", "bool", "float64", "byte", "rune", "uintptr", "complex128", "error", "any"}} \cup {Unsafe}
LeafLocal   == {N("SRC", "LT"), N("SRC", "lt"), N("SRC", "LI"), N("SRC", "LE"), N("SRC", "LA")}
LeafForeign == {N("FX", "TI"), N("FD", "T"), N("FD", "E"), N("FX", "T"), N("FX", "I"), N("FX", "E"), N("FX", "A"), N("FY", "T"), N("FZ", "T"), N("FV", "T"), N("FM", "T"), N("FS", "T"),
                N("FX", "Client"), N("FY", "Client"), N("FX", "Token"), N("FV", "Token")}   \* aliases of types the destination cannot name
LeafStd     == {N("Sio", "Reader"), N("Scontext", "Context"), N("Stime", "Duration")}
LeafInst    == {Inst("SRC", "LG", <<Int>>), Inst("FX", "G", <<N("FY", "T")>>), Inst("SRC", "LG2", <<Str, N("FX", "T")>>)}
Leaves      == LeafBasic \cup LeafLocal \cup LeafForeign \cup LeafStd \cup LeafInst
LeavesSmall == {Int, Str, Err, N("SRC", "LT"), N("FX", "T"), N("FY", "T"), N("Sio", "Reader"), Inst("FX", "G", <<N("FZ", "T")>>)}
LeafClass(t) == IF t \in LeafBasic THEN "basic" ELSE IF t \in LeafLocal THEN "local" ELSE IF t \in LeafForeign THEN "foreign"
                ELSE IF t \in LeafStd THEN "std" ELSE IF t \in LeafInst THEN "inst" ELSE "composite"
IsIfaceLeaf(t) == t \in {N("FX", "TI"), N("SRC", "LI"), N("FX", "I"), N("Sio", "Reader"), N("Scontext", "Context")}
IsNamedLeaf(t) == t.k = "named"

Unary(e) ==
  {Ptr(e), Slice(e), Arr(e), Chan("both", e), Chan("send", e), Chan("recv", e),
   Map(Str, e), Fn(<<V("", e)>>, <<V("", e)>>, FALSE), Fn(<<V("x", Int), V("ys", e)>>, << >>, TRUE),
   Fn(<<V("", e)>>, <<V("", e), V("", Err)>>, FALSE),
   Struct(<<Fld("F", e, "json:f", FALSE)>>), Struct(<<Fld("F", e, "", FALSE), Fld("G", Int, "", FALSE)>>),
   Iface(<<Meth("M", <<V("", e)>>, <<V("", e)>>, FALSE)>>, << >>),
   Inst("SRC", "LG", <<e>>), Inst("FX", "G", <<e>>)}
  \cup (IF IsNamedLeaf(e) THEN {Struct(<<Fld("", e, "", TRUE)>>)} ELSE {})
  \cup (IF IsIfaceLeaf(e) THEN {Iface(<< >>, <<e>>)} ELSE {})
  \cup (IF e \in ComparableLeaves THEN {Map(e, Int), Inst("SRC", "LG2", <<e, Int>>)} ELSE {})

TypesD1 == Leaves \cup UNION {Unary(e) : e \in Leaves}
\* depth 2, quick: the classic troublemakers; thorough: every unary over every unary over a reduced leaf set
TypesD2Quick == {Chan("both", Chan("recv", N("FX", "T"))), Chan("send", Chan("recv", Int)), Chan("recv", Chan("send", N("FY", "T"))),
                 Ptr(Slice(N("FX", "T"))), Slice(Ptr(N("FZ", "T"))), Map(N("FX", "E"), Slice(N("FY", "T"))),
                 Fn(<<V("", Fn(<<V("", N("FX", "T"))>>, << >>, FALSE))>>, <<V("", Fn(<< >>, <<V("", N("FY", "T"))>>, FALSE))>>, FALSE),
                 Map(Str, Map(Str, N("FV", "T"))), Slice(Slice(N("SRC", "LT"))), Ptr(Ptr(N("FX", "T"))),
                 Chan("both", Fn(<<V("", N("FM", "T"))>>, << >>, FALSE)),
                 Struct(<<Fld("F", Chan("recv", N("FX", "T")), "", FALSE)>>),
                 Iface(<<Meth("M", <<V("", Slice(N("FY", "T")))>>, <<V("", Err)>>, FALSE)>>, <<N("FX", "I")>>),
                 Inst("FX", "G", <<Inst("FY", "G", <<N("FZ", "T")>>)>>), Slice(Inst("SRC", "LG", <<N("FX", "T")>>)),
                 Arr(Arr(Int)), Fn(<<V("", Int), V("", Slice(N("FX", "T")))>>, <<V("", Chan("recv", N("FY", "T")))>>, TRUE)}
TypesD2Full == UNION {Unary(e) : e \in UNION {Unary(l) : l \in LeavesSmall}}

ShapeProg(t, depth) ==
  [P("shape/" \o Show(t), "shape", Show(t), "cs",
     One("I", Decl(<< >>, << >>, <<Meth("M", <<V("a", t)>>, <<V("", t)>>, FALSE), Meth("V", <<V("p", Int), V("v", t)>>, << >>, TRUE)>>)), "I")
   EXCEPT !.pos = depth]
ShapeQuick == {ShapeProg(t, "d1") : t \in TypesD1} \cup {ShapeProg(t, "d2") : t \in TypesD2Quick \ TypesD1}
ShapeThorough == ShapeQuick \cup {ShapeProg(t, "d2") : t \in TypesD2Full \ (TypesD1 \cup TypesD2Quick)}

(* ------------------------------------------------------------------------ *)
(* Ident: adversarial identifier alphabet x position                         *)
IdOrdinary   == {"a", "name", "a1"}
IdPkgName    == {"io", "context", "mock", "sync", "fmt", "testing", "quux", "io0", "time", "unsafe", "constraints"}
IdPredecl    == {"string", "error", "nil", "any", "len", "append", "true", "int", "panic", "make", "bool", "cap", "new", "iota", "byte", "comparable"}
IdTplLocal   == {"_mock", "_m", "_e", "_c", "ret", "r0", "r1", "tmpRet", "returnFunc", "ok", "_va", "_ca", "_i", "run", "args",
                 "variadicArgs", "i", "t", "m", "expecter", "callInfo", "calls"}
IdCommon     == {"err", "res", "result", "v", "val", "out", "in", "ctx", "call", "c", "e", "r", "n", "s", "f", "fn", "arg", "p", "params",
                 "rets", "results", "tmp", "x", "idx", "b", "key", "value", "data", "buf", "ret0", "ret1", "_a", "_r0", "_ret", "_args", "_call",
                 "_mock1", "mock1", "lock", "mu", "id", "ID", "A", "url"}
IdNonAscii   == {"zze", "zzo", "_nihon"}
IdTypeName   == {"LT", "T"}
Idents == IdOrdinary \cup IdPkgName \cup IdPredecl \cup IdTplLocal \cup IdCommon \cup IdNonAscii \cup IdTypeName
IdClassOf(x) == IF x \in IdPkgName THEN "pkgname" ELSE IF x \in IdPredecl THEN "predeclared" ELSE IF x \in IdTplLocal THEN "tpllocal"
                ELSE IF x \in IdNonAscii THEN "nonascii" ELSE IF x \in IdTypeName THEN "typename" ELSE IF x \in IdCommon THEN "common" ELSE "ordinary"

\* a companion type that makes the identifier dangerous in the same signature
Companion(x) ==
  CASE x = "io" -> N("Sio", "Reader") [] x = "context" -> N("Scontext", "Context") [] x = "time" -> N("Stime", "Duration")
    [] x = "mock" -> N("FM", "T") [] x = "sync" -> N("FS", "T") [] x = "quux" -> N("FV", "T") [] x = "io0" -> N("FZ", "T")
    [] x = "fmt" -> N("Sfmt", "Stringer") [] x = "unsafe" -> Unsafe
    [] x \in {"string", "error", "any", "int", "bool", "byte"} -> Slice(B(x))
    [] x = "LT" -> Slice(N("SRC", "LT"))
    [] OTHER -> N("Sio", "Reader")
Positions == {"p1", "pl", "pv", "pvn", "r1", "r2", "n0", "pair"}
IdentSig(x, pos) ==
  LET K == Companion(x) IN
  CASE pos = "p1"  -> Meth("M", <<V(x, Int), V("z", K)>>, <<V("", Slice(Str)), V("", Err)>>, FALSE)
    [] pos = "pl"  -> Meth("M", <<V("z", K), V(x, Int)>>, <<V("", K)>>, FALSE)
    [] pos = "pv"  -> Meth("M", <<V("z", Int), V(x, K)>>, <<V("", Bool)>>, TRUE)
    [] pos = "pvn" -> Meth("M", <<V("z", Int), V(x, K)>>, << >>, TRUE)
    [] pos = "r1"  -> Meth("M", <<V("z", K)>>, <<V(x, Int), V("zq", Err)>>, FALSE)
    [] pos = "r2"  -> Meth("M", <<V("z", Int)>>, <<V("y", Int), V(x, K)>>, FALSE)
    [] pos = "n0"  -> Meth("M", <<V(x, K)>>, << >>, FALSE)
    [] pos = "pair" -> Meth("M", <<V(x, Int), V(x \o "1", Str)>>, <<V("", Ptr(K))>>, FALSE)   \* x next to its own first suffix
IdentProg(x, pos) ==
  [P("ident/" \o x \o "/" \o pos, "ident", pos, "cs",
     One("I", IF x = "T" THEN Decl(<<TPar("T", AnyT)>>, << >>, <<IdentSig(x, pos), Meth("N", <<V("q", TP("T"))>>, <<V("", TP("T"))>>, FALSE)>>)
              ELSE Decl(<< >>, << >>, <<IdentSig(x, pos)>>)), "I")
   EXCEPT !.idclass = IdClassOf(x), !.ident = x, !.pos = pos]
IdentAll == {IdentProg(x, pos) : x \in Idents, pos \in Positions}
\* quick tier: every position for the classes the templates and the allocator interact with, three positions for the rest
IdentQuick == {IdentProg(x, pos) : x \in IdPkgName \cup IdPredecl \cup IdTplLocal \cup IdTypeName, pos \in Positions}
              \cup {IdentProg(x, pos) : x \in IdOrdinary \cup IdCommon \cup IdNonAscii, pos \in {"p1", "pv", "r1", "pair"}}
\* field-name clashes after `exported` (matryer call-info struct)
CaseClash == {[P("ident/" \o a \o "+" \o b, "ident", "caseclash", "cs",
                 One("I", Decl(<< >>, << >>, <<Meth("M", <<V(a, Int), V(b, Str)>>, <<V("", Err)>>, FALSE)>>)), "I")
               EXCEPT !.idclass = "caseclash", !.ident = a \o "+" \o b, !.pos = "p1"]
              : a \in {"a"}, b \in {"A"}}
             \cup {[P("ident/id+ID", "ident", "caseclash", "cs",
                 One("I", Decl(<< >>, << >>, <<Meth("M", <<V("id", Int), V("ID", Str)>>, <<V("", Err)>>, FALSE)>>)), "I")
               EXCEPT !.idclass = "caseclash", !.ident = "id+ID", !.pos = "p1"]}

(* ------------------------------------------------------------------------ *)
(* Pkgs: ordered tuples of colliding packages x name of the package under test *)
PkgType(p) == CASE p = "Sio" -> N("Sio", "Reader") [] p = "Ssync" -> N("Ssync", "Locker") [] p = "Scontext" -> N("Scontext", "Context")
                [] p = "SRC" -> N("SRC", "LT") [] OTHER -> N(p, "T")
PkgPool == {"FX", "FY", "FZ", "Sio", "FV", "FM", "FS", "Ssync", "SRC"}
IoFamily == {"FX", "FY", "FZ", "Sio"}
SrcNames == {"cs", "io", "quux", "mock", "sync", "io0"}
PkgSig(ps) == Meth("M", [i \in 1..Len(ps) |-> V("", PkgType(ps[i]))], <<V("", Err)>>, FALSE)
PkgProg(ps, sn) ==
  LET key == ShowSeq([i \in 1..Len(ps) |-> PkgType(ps[i])]) IN
  P("pkgs/" \o sn \o "/" \o key, "pkgs", key, sn, One("I", Decl(<< >>, << >>, <<PkgSig(ps)>>)), "I")
\* two methods: the second method's scope is created after the first one's imports exist
PkgProg2(a, b, sn) ==
  LET key == Show(PkgType(a)) \o "|" \o Show(PkgType(b)) IN
  P("pkgs2/" \o sn \o "/" \o key, "pkgs", key, sn,
    One("I", Decl(<< >>, << >>, <<Meth("M", <<V("io", PkgType(a))>>, << >>, FALSE), Meth("N", <<V("io", Int), V("x", PkgType(b))>>, <<V("io0", Int)>>, FALSE)>>)), "I")
PkgPairs == {<<a, b>> : a \in PkgPool, b \in PkgPool} \ {<<a, a>> : a \in PkgPool}
PkgTriples == {<<a, b, d>> : a \in IoFamily \cup {"SRC"}, b \in IoFamily \cup {"SRC"}, d \in IoFamily \cup {"SRC"}}
              \ {t \in {<<a, b, d>> : a \in IoFamily \cup {"SRC"}, b \in IoFamily \cup {"SRC"}, d \in IoFamily \cup {"SRC"}} : t[1] = t[2] \/ t[2] = t[3] \/ t[1] = t[3]}
PkgsQuick == {PkgProg(ps, "cs") : ps \in PkgPairs} \cup {PkgProg(ps, sn) : ps \in {<<"FX", "SRC">>, <<"SRC", "FY">>, <<"Sio", "SRC">>, <<"FV", "SRC">>, <<"SRC", "FV">>, <<"FM", "SRC">>, <<"FS", "SRC">>, <<"FZ", "SRC">>, <<"SRC", "FZ">>}, sn \in SrcNames}
             \cup {PkgProg(ps, "io") : ps \in PkgTriples} \cup {PkgProg2(a, b, "cs") : a \in IoFamily, b \in IoFamily}
PkgsThorough == PkgsQuick \cup {PkgProg(ps, sn) : ps \in PkgPairs \cup PkgTriples, sn \in SrcNames}
                \cup {PkgProg2(a, b, sn) : a \in PkgPool, b \in PkgPool, sn \in {"cs", "io"}}

(* ------------------------------------------------------------------------ *)
(* Embed: embedding DAGs                                                     *)
Bts == Slice(B("byte"))
RdM == Meth("Read", <<V("p", Bts)>>, <<V("n", Int), V("err", Err)>>, FALSE)
AuxDecls ==
  ("J"  :> Decl(<< >>, << >>, <<Meth("Foo", << >>, << >>, FALSE), Meth("Close", << >>, <<V("", Err)>>, FALSE)>>)) @@
  ("J2" :> Decl(<< >>, <<N("SRC", "J")>>, <<Meth("W", <<V("x", N("SRC", "LT"))>>, <<V("", N("FX", "T"))>>, FALSE)>>)) @@
  ("K3" :> Decl(<< >>, <<N("SRC", "J2")>>, <<Meth("X", <<V("xs", Int)>>, << >>, TRUE)>>)) @@
  ("R2" :> Decl(<< >>, << >>, <<RdM>>)) @@
  \* never embedded: same method names as J, LGI, R2 with other signatures (several interfaces mocked into one file)
  ("Q"  :> Decl(<< >>, << >>, <<Meth("Foo", <<V("a", Str)>>, <<V("", Int)>>, FALSE), Meth("Get", << >>, <<V("", Err)>>, FALSE),
                                  Meth("Read", << >>, << >>, FALSE), Meth("Close", <<V("xs", N("FX", "T"))>>, << >>, TRUE)>>)) @@
  ("LGI" :> Decl(<<TPar("T", AnyT)>>, << >>, <<Meth("Get", << >>, <<V("", TP("T"))>>, FALSE), Meth("Put", <<V("v", TP("T"))>>, << >>, FALSE)>>)) @@
  ("LKV" :> Decl(<<TPar("K", B("comparable")), TPar("V", AnyT)>>, << >>,
                 <<Meth("Get", <<V("k", TP("K"))>>, <<V("", TP("V")), V("", Bool)>>, FALSE), Meth("Put", <<V("k", TP("K")), V("v", TP("V"))>>, << >>, FALSE)>>))
EmbedPool == {B("error"), B("any"), N("SRC", "J"), N("FX", "I"), N("Sio", "ReadWriter"), Inst("SRC", "LGI", <<Int>>), Inst("FX", "GI", <<N("FY", "T")>>),
              N("SRC", "R2"), N("SRC", "K3"), N("FX", "RW"), N("Sfmt", "Stringer"), N("Ssync", "Locker"), N("Sio", "Reader")}
RECURSIVE SetToSeq(_)
SetToSeq(S) == IF S = {} THEN << >> ELSE LET x == CHOOSE x \in S : TRUE IN <<x>> \o SetToSeq(S \ {x})
EmbedProgOf(S, own) ==
  LET es == SetToSeq(S)
      d  == Decl(<< >>, es, IF own THEN <<Meth("M", <<V("a", Int)>>, <<V("", Str)>>, FALSE)>> ELSE << >>)
      key == ShowSeq(es) \o (IF own THEN "+M" ELSE "")
  IN P("embed/" \o key, "embed", key, "cs", AuxDecls @@ One("I", d), "I")
EmbedSets(k) == {S \in SUBSET EmbedPool : Cardinality(S) >= 1 /\ Cardinality(S) <= k}
WellFormedProg(p) == WellFormedMethodSet(TargetMethodSet(p.decls, p.target))
EmbedQuick == {p \in {EmbedProgOf(S, own) : S \in EmbedSets(2), own \in BOOLEAN} : WellFormedProg(p)}
EmbedThorough == {p \in {EmbedProgOf(S, own) : S \in EmbedSets(3), own \in BOOLEAN} : WellFormedProg(p)}

(* ------------------------------------------------------------------------ *)
(* Multi: every interface of a package mocked into ONE output file (one      *)
(* registry, one template execution ranging over the interfaces).  The order *)
(* mixes generic / plain / unexported interfaces whose methods share names   *)
(* (partly with other signatures), so state that leaks from one mock into    *)
(* the next shows.                                                           *)
LiDecl == ("li" :> Decl(<< >>, << >>, <<Meth("Foo", <<V("a", Int)>>, <<V("", N("FS", "T"))>>, FALSE)>>))
MultiOf(p, order, tag) ==
  [p EXCEPT !.pid = "multi/" \o tag \o "/" \o p.feat, !.fam = "multi", !.targets = order \o <<p.target>>,
            !.decls = IF tag = "B" THEN p.decls @@ LiDecl ELSE p.decls]
MultiOrderA == <<"J", "J2", "K3", "LGI", "Q", "R2">>
MultiOrderB == <<"LGI", "li", "Q", "J">>          \* generic first, then an unexported one, then plain ones
MultiOrderC == <<"LKV", "LGI", "R2", "J">>        \* generic(K, V) -> generic(T) -> plain -> plain (-> the target)
MultiBase(k) == {p \in {EmbedProgOf(S, own) : S \in EmbedSets(k), own \in BOOLEAN} : WellFormedProg(p)}
MultiQuick == {MultiOf(p, MultiOrderA, "A") : p \in MultiBase(1)} \cup {MultiOf(p, MultiOrderB, "B") : p \in MultiBase(1)}
              \cup {MultiOf(p, MultiOrderC, "C") : p \in MultiBase(1)}
MultiThorough == {MultiOf(p, MultiOrderA, "A") : p \in MultiBase(2)} \cup {MultiOf(p, MultiOrderB, "B") : p \in MultiBase(2)}
                 \cup {MultiOf(p, MultiOrderC, "C") : p \in MultiBase(1)}

(* ------------------------------------------------------------------------ *)
(* Generic: type parameters x constraints; named instantiations              *)
StringerLit == Iface(<<Meth("String", << >>, <<V("", Str)>>, FALSE)>>, << >>)
Constraints == {AnyT, B("comparable"), Int, Union(<<Int, Str>>), StringerLit, N("Sfmt", "Stringer"), N("FC", "Ordered"), N("FX", "C"), N("SRC", "LC")}
TpNames == {"T", "t", "K"}
GenMethods(n) == <<Meth("Get", << >>, <<V("", TP(n))>>, FALSE), Meth("Put", <<V("v", TP(n))>>, << >>, FALSE),
                   Meth("M", <<V("f", Fn(<<V("", TP(n))>>, <<V("", TP(n))>>, FALSE))>>, <<V("", Slice(TP(n))), V("", Err)>>, FALSE),
                   Meth("V", <<V("vs", TP(n))>>, <<V("", Chan("recv", Inst("FX", "G", <<TP(n)>>)))>>, TRUE)>>
Gen1(n, cn) == [P("generic/" \o n \o "/" \o Show(cn), "generic", Show(cn), "cs", One("I", Decl(<<TPar(n, cn)>>, << >>, GenMethods(n))), "I")
                EXCEPT !.idclass = IF n = "t" THEN "tparam-lower" ELSE "ordinary", !.ident = n]
Gen2 == {[P("generic/KV/" \o a \o b, "generic", "two-params", "cs",
            One("I", Decl(<<TPar(a, B("comparable")), TPar(b, AnyT)>>, << >>,
                          <<Meth("Get", <<V("k", TP(a))>>, <<V("", TP(b)), V("", Bool)>>, FALSE),
                            Meth("Put", <<V("k", TP(a)), V("v", TP(b))>>, << >>, FALSE),
                            Meth("M", << >>, <<V("", Map(TP(a), TP(b)))>>, FALSE)>>)), "I")
          EXCEPT !.idclass = IF a = "k" THEN "tparam-lower" ELSE "ordinary", !.ident = a]
         : a \in {"K", "k"}, b \in {"V"}}
\* a generic interface embedding an instantiated generic with its own parameter, and named instantiations
GenEmbed == {P("generic/embed-own", "generic", "embed-LGI[T]", "cs",
               AuxDecls @@ One("I", Decl(<<TPar("T", AnyT)>>, <<Inst("SRC", "LGI", <<TP("T")>>)>>, <<Meth("M", <<V("x", TP("T"))>>, <<V("", Err)>>, FALSE)>>)), "I"),
             P("generic/embed-foreign", "generic", "embed-FX.GI[[]T]", "cs",
               One("I", Decl(<<TPar("T", B("comparable"))>>, <<Inst("FX", "GI", <<Slice(TP("T"))>>)>>, << >>)), "I")}
NamedInst == {[P("generic/namedinst-local", "generic", "type X LGI[int]", "cs", AuxDecls @@ One("X", Decl(<< >>, <<Inst("SRC", "LGI", <<Int>>)>>, << >>)), "X")
               EXCEPT !.form = "namedinst"],
              [P("generic/namedinst-foreign", "generic", "type X FX.GI[FY.T]", "cs", One("X", Decl(<< >>, <<Inst("FX", "GI", <<N("FY", "T")>>)>>, << >>)), "X")
               EXCEPT !.form = "namedinst"],
              [P("generic/namedinst-2", "generic", "type X FX.GI[map[string]FZ.T]", "io", One("X", Decl(<< >>, <<Inst("FX", "GI", <<Map(Str, N("FZ", "T"))>>)>>, << >>)), "X")
               EXCEPT !.form = "namedinst"],
              [P("generic/alias", "generic", "type Y = LGI[int]", "cs", AuxDecls @@ One("Y", Decl(<< >>, <<Inst("SRC", "LGI", <<Int>>)>>, << >>)), "Y")
               EXCEPT !.form = "alias", !.guarantee = FALSE]}
\* constraints with SEVERAL elements (both orders), nested / embedded named constraints, unions with a plain foreign
\* term, and tilde terms over composite types that mention imported (and local) packages
StringM == Meth("String", << >>, <<V("", Str)>>, FALSE)
Cmp == B("comparable")
CtxFn == Fn(<<V("", N("Scontext", "Context"))>>, <<V("", Err)>>, FALSE)
ConstraintsMulti ==
  {Iface(<< >>, <<Cmp, Union(<<Str>>)>>), Iface(<< >>, <<Union(<<Str>>), Cmp>>),
   Iface(<< >>, <<Cmp, Union(<<B("uint8"), B("int64")>>)>>), Iface(<< >>, <<Union(<<B("uint8"), B("int64")>>), Cmp>>),
   Iface(<<StringM>>, <<Union(<<Int, Str>>)>>), Iface(<<StringM>>, <<Cmp>>), Iface(<<StringM>>, <<Cmp, Union(<<Int>>)>>),
   Iface(<< >>, <<N("SRC", "LC"), Union(<<Str>>)>>), Iface(<< >>, <<Union(<<Str>>), N("FX", "C")>>),
   Iface(<< >>, <<N("SRC", "Number")>>), Iface(<< >>, <<N("SRC", "LStr")>>), Iface(<< >>, <<N("SRC", "LStr"), Cmp>>),
   Iface(<< >>, <<N("FC", "Ordered"), Cmp>>), Iface(<< >>, <<Cmp, N("FC", "Ordered")>>),
   N("SRC", "LSealed"), N("FX", "Sealed"), Iface(<< >>, <<N("SRC", "LSealed"), Cmp>>), Iface(<<StringM>>, <<N("SRC", "Number")>>),
   Union(<<Plain(N("FX", "E")), Str>>), Union(<<Str, Plain(N("FX", "E"))>>),
   Union(<<Slice(N("Stime", "Duration"))>>), Union(<<Map(Str, Ptr(N("FX", "T")))>>), Union(<<CtxFn>>),
   Union(<<Slice(N("SRC", "LT")), Str>>), Union(<<Int, Slice(N("FY", "T"))>>),
   Iface(<< >>, <<Union(<<Slice(N("Stime", "Duration")), Str>>), Union(<<Slice(N("Stime", "Duration"))>>)>>)}
ASSUME \A cn \in ConstraintsMulti \cup Constraints \cup {Iface(<<Meth("Less", <<V("", TP("T"))>>, <<V("", Bool)>>, FALSE)>>, << >>)} : ConstraintModels(cn) # {}      \* every constraint of the alphabet is satisfiable in the model
\* recursive constraint (the constraint mentions its own type parameter); type parameters used in results only
LessM == Meth("Less", <<V("", TP("T"))>>, <<V("", Bool)>>, FALSE)
GenRecursive == {Gen1("T", Iface(<<LessM>>, << >>)), Gen1("T", Iface(<<LessM, StringM>>, <<Cmp>>))}
GenResultOnly == {P("generic/result-only/" \o Show(cn), "generic", "result-only", "cs",
                    One("I", Decl(<<TPar("T", cn)>>, << >>, <<Meth("Get", << >>, <<V("", TP("T"))>>, FALSE),
                                                               Meth("All", << >>, <<V("", Slice(TP("T"))), V("", Err)>>, FALSE)>>)), "I")
                  : cn \in {AnyT, Cmp, Union(<<Slice(N("Stime", "Duration"))>>)}}
GenMulti == {Gen1("T", cn) : cn \in ConstraintsMulti} \cup GenRecursive \cup GenResultOnly
GenericAll == {Gen1(n, cn) : n \in TpNames, cn \in Constraints} \cup Gen2 \cup GenEmbed \cup NamedInst \cup GenMulti

(* ------------------------------------------------------------------------ *)
(* MName: method and interface names                                         *)
MNameProg(ns, tgt) ==
  LET key == ShowSeq([i \in 1..Len(ns) |-> B(ns[i])]) \o "@" \o tgt IN
  P("mname/" \o key, "mname", key, "cs",
    One(tgt, Decl(<< >>, << >>, [i \in 1..Len(ns) |-> Meth(ns[i], <<V("a", Int)>>, <<V("", Err)>>, FALSE)])), tgt)
MNameAll == {MNameProg(ns, "I") : ns \in {<<"m">>, <<"Type">>, <<"Func">>, <<"Range">>, <<"Zzecoute">>, <<"EXPECT">>, <<"On">>, <<"ResetCalls">>,
                                           <<"Get", "GetCalls">>, <<"M", "MCalls">>, <<"M", "m">>, <<"String">>}}
            \cup {MNameProg(<<"M">>, tgt) : tgt \in {"li", "Zzea", "Mock", "Type"}}
            \cup {P("mname/empty", "mname", "no-methods", "cs", One("I", Decl(<< >>, << >>, << >>)), "I")}

(* ------------------------------------------------------------------------ *)
(* Local: local declarations named like imports / template locals; unnamed parameters *)
LocalNamed == {"mock", "sync", "a", "i", "args", "run", "ret", "t", "m", "Mock", "String", "Type", "Ret", "Zzea", "CallInfo", "io"}
LocalProg(n) ==
  [P("local/" \o n, "local", n, "cs",
     One("I", Decl(<< >>, << >>, <<Meth("M", <<V("x", N("SRC", n)), V("ys", N("SRC", n))>>, <<V("", N("SRC", n)), V("", Err)>>, TRUE),
                                     Meth("N", <<V("", N("SRC", n)), V("", Ptr(N("SRC", n)))>>, << >>, FALSE)>>)), "I")
   EXCEPT !.idclass = "localtype", !.ident = n]
UnnamedSigs == {<<Str, Str>>, <<Int, B("rune")>>, <<N("FX", "T"), N("FY", "T")>>, <<Slice(Str), Slice(Str)>>, <<Map(Str, Int), Chan("both", Int)>>,
                <<Err, Err>>, <<AnyT, Iface(<< >>, << >>)>>, <<Ptr(N("FX", "T")), Arr(N("FX", "E"))>>, <<Fn(<< >>, << >>, FALSE), Struct(<< >>)>>,
                <<N("SRC", "LA"), Unsafe>>, <<B("byte"), B("complex128")>>, <<Bool, B("float64")>>, <<Slice(N("Sio", "Reader")), Map(N("FX", "E"), N("FY", "T"))>>}
UnnamedProg(ts) ==
  LET key == ShowSeq(ts) IN
  [P("unnamed/" \o key, "unnamed", key, "cs",
     One("I", Decl(<< >>, << >>, <<Meth("M", <<V("", ts[1]), V("_", ts[2])>>, <<V("", ts[1]), V("", Err)>>, FALSE),
                                     Meth("N", <<V("s", Int), V("", ts[2])>>, <<V("n", ts[2])>>, FALSE),
                                     Meth("V", <<V("", Int), V("", ts[1])>>, << >>, TRUE),
                                     Meth("W", <<V("ctx", N("Scontext", "Context"))>>, <<V("", Err), V("", ts[1])>>, FALSE),
                                     Meth("X", <<V("_", ts[1]), V("_", ts[1])>>, <<V("_", ts[2]), V("_", ts[2]), V("err", Err)>>, FALSE)>>)), "I")
   EXCEPT !.idclass = "unnamed"]
\* GENERATED names that equal a predeclared identifier: an unnamed parameter of a named type whose de-capitalised name is
\* predeclared (Byte -> byte, Error -> error, Len -> len), next to composite uses of that identifier in the same signature.
GenTypeLike == {"Byte", "Rune", "String", "Int", "Bool", "Uint8", "Int64", "Uintptr", "Float64", "Complex128", "Error", "Any"}
GenFuncLike == {"Len", "New", "Append", "Make", "Panic", "Cap", "Nil", "True", "Iota"}
GenPreProg(x) ==
  LET lo == DeCap(x)
      X == N("SRC", x)
      mths == IF x \in GenTypeLike
            THEN <<Meth("M", <<V("", X), V("", B(lo))>>, <<V("", Slice(B(lo)))>>, TRUE),          \* M(X, ...lo) []lo
                   Meth("N", <<V("_", Ptr(X)), V("_", Map(B(lo), X))>>, <<V("", Arr(B(lo))), V("", Err)>>, FALSE),
                   Meth("V", <<V("", N("FX", x))>>, <<V("", Chan("recv", B(lo)))>>, FALSE)>>   \* the same name from a foreign package
            ELSE <<Meth("M", <<V("", X), V("", Int)>>, <<V("", Ptr(Int)), V("", Err)>>, TRUE),    \* templates use len / nil / panic / append
                   Meth("N", <<V("_", Ptr(X))>>, <<V("", Slice(Int))>>, FALSE)>>
  IN [P("genpre/" \o x, "unnamed", x, "cs", One("I", Decl(<< >>, << >>, mths)), "I")
      EXCEPT !.idclass = "gen-predeclared", !.ident = x]
GenPreAll == {GenPreProg(x) : x \in GenTypeLike \cup GenFuncLike}
LocalAll == {LocalProg(n) : n \in LocalNamed} \cup {UnnamedProg(ts) : ts \in UnnamedSigs} \cup GenPreAll

(* ------------------------------------------------------------------------ *)
(* Repl: `replace-type` whose replacement is an ALIAS of the replaced type (io.T -> io.A = T): the types stay identical, *)
(* so the mock must still implement the source interface exactly.  The replaced type occurs first / in the middle /     *)
(* last, followed by parameters and results of UNNAMED types (basic, slice, map, pointer, func), and nested (not          *)
(* replaced there).  `repl` tells the harness which replace-type entry to configure.                                      *)
FT == N("FX", "T")
ReplSigs ==
  <<Meth("M", <<V("tok", FT), V("scope", Str), V("retries", Int)>>, <<V("", Err)>>, FALSE),
    Meth("N", <<V("ctx", N("Scontext", "Context")), V("user", Str)>>, <<V("", FT), V("", Str)>>, FALSE),
    Meth("V", <<V("x", FT), V("bs", Slice(B("byte")))>>, <<V("", Map(Str, Int)), V("", Ptr(Int))>>, TRUE),
    Meth("W", <<V("m", Map(Str, FT)), V("t", FT), V("p", Ptr(FT)), V("f", Fn(<<V("", Int)>>, <<V("", Str)>>, FALSE))>>, <<V("", Slice(FT))>>, FALSE),
    Meth("X", <<V("", Int), V("", FT), V("", Str)>>, <<V("", FT), V("", Bool), V("", FT)>>, FALSE)>>
ReplAll == {P("repl/FX.T->FX.A", "repl", "FX.T->FX.A", "cs", One("I", Decl(<< >>, << >>, ReplSigs)), "I")
              @@ [repl |-> [from |-> FT, to |-> N("FX", "A")]],
            P("repl/FX.T->FX.A/embedded", "repl", "FX.T->FX.A/embedded", "cs",
              ("R" :> Decl(<< >>, << >>, ReplSigs)) @@ One("I", Decl(<< >>, <<N("SRC", "R")>>, <<Meth("Close", <<V("t", FT), V("why", Str)>>, << >>, FALSE)>>)), "I")
              @@ [repl |-> [from |-> FT, to |-> N("FX", "A")]]}

(* ------------------------------------------------------------------------ *)
(* Ext: interfaces of packages OUTSIDE the module (stdlib), configured directly; the mock always lives in a separate   *)
(* package.  "SRC" is that package; no source file is written (extpkg tells the harness which package it is).           *)
WrM == Meth("Write", <<V("p", Bts)>>, <<V("n", Int), V("err", Err)>>, FALSE)
ExtProg(pkg, name, decls, target) == P("ext/" \o name \o "." \o target, "ext", name \o "." \o target, name, decls, target) @@ [extpkg |-> pkg]
ExtAll == {ExtProg("Sio", "io", ("Reader" :> Decl(<< >>, << >>, <<RdM>>)) @@ ("Writer" :> Decl(<< >>, << >>, <<WrM>>))
                                 @@ ("ReadWriter" :> Decl(<< >>, <<N("SRC", "Reader"), N("SRC", "Writer")>>, << >>)), "ReadWriter"),
           ExtProg("Sio", "io", One("Reader", Decl(<< >>, << >>, <<RdM>>)), "Reader"),
           ExtProg("Sfmt", "fmt", One("Stringer", Decl(<< >>, << >>, <<StringM>>)), "Stringer")}

(* ------------------------------------------------------------------------ *)
(* Variadic: element type class of the variadic parameter x number of        *)
(* parameters before it (0, 1, 2: one method each, with no / two / one       *)
(* result).  The classes are those of Sig.tla VariadicElemClass: every way   *)
(* of spelling the empty interface (any, interface{}, an alias, local or     *)
(* foreign), DEFINED types whose underlying type is the empty interface,     *)
(* non-empty interfaces, type parameters under every constraint class, and   *)
(* concrete types of every constructor.  Crossed by the harness with the     *)
(* template and the EFFECTIVE unroll-variadic option (CodegenCfg.tla).       *)
EmptyLit == Iface(<< >>, << >>)
VaElems == {AnyT, EmptyLit, N("SRC", "LAnyA"), N("FX", "AnyA"), N("FY", "AnyA"), N("SRC", "LEI"), N("FX", "EI"), N("FV", "EI"),
            Err, N("SRC", "LI"), N("FX", "I"), N("Sfmt", "Stringer"), Iface(<<StringM>>, << >>),
            Int, Str, Unsafe, N("SRC", "LT"), N("FX", "T"), N("SRC", "LE"), N("FX", "A"), N("Stime", "Duration"),
            Slice(AnyT), Slice(N("SRC", "LEI")), Slice(Str), Ptr(N("FX", "T")), Ptr(N("SRC", "LEI")), Arr(AnyT), Map(Str, AnyT), Chan("recv", N("FX", "EI")),
            Fn(<<V("", AnyT)>>, <<V("", Err)>>, FALSE), Fn(<<V("", N("FX", "EI"))>>, << >>, TRUE), Struct(<< >>),
            Inst("SRC", "LG", <<AnyT>>), Inst("FX", "G", <<N("SRC", "LEI")>>)}
VaMethods(e, r) == <<Meth("M", <<V("xs", e)>>, << >>, TRUE),
                     Meth("N", <<V("ctx", N("Scontext", "Context")), V("xs", e)>>, <<V("", Int), V("", Err)>>, TRUE),
                     Meth("V", <<V("format", Str), V("n", Int), V("xs", e)>>, <<V("", r)>>, TRUE)>>
VaProg(e) == P("variadic/" \o Show(e), "variadic", Show(e), "cs", One("I", Decl(<< >>, << >>, VaMethods(e, e))), "I")
\* the element is (or mentions) the interface's own type parameter
VaTpConstraints == {AnyT, Cmp, Int, Union(<<Int, Str>>), N("FC", "Ordered"), N("SRC", "LC"), StringerLit, N("Sfmt", "Stringer"),
                    Iface(<<StringM>>, <<Cmp>>), EmptyLit, N("SRC", "LEI"), N("FX", "AnyA")}
VaTpProg(cn, e) == P("variadic/T-" \o Show(cn) \o "/" \o Show(e), "variadic", "tp:" \o Show(cn), "cs",
                     One("I", Decl(<<TPar("T", cn)>>, << >>, VaMethods(e, TP("T")))), "I")
VaKV == P("variadic/KV", "variadic", "tp:two-params", "cs",
          One("I", Decl(<<TPar("K", Cmp), TPar("V", AnyT)>>, << >>,
                        <<Meth("M", <<V("keys", TP("K"))>>, << >>, TRUE), Meth("N", <<V("k", TP("K")), V("vals", TP("V"))>>, <<V("", TP("V")), V("", Bool)>>, TRUE)>>)), "I")
VariadicAll == {VaProg(e) : e \in VaElems} \cup {VaTpProg(cn, TP("T")) : cn \in VaTpConstraints}
               \cup {VaTpProg(cn, e) : cn \in {AnyT, Cmp}, e \in {Slice(TP("T")), Ptr(TP("T")), Inst("SRC", "LG", <<TP("T")>>), Fn(<<V("", TP("T"))>>, << >>, FALSE)}}
               \cup {VaKV}

(* ------------------------------------------------------------------------ *)
\* abstraction tables the harness cross-checks against its concretisation (package names, go/types method order)
AllPkgIds == ForeignPkgs \cup StdPkgs \cup {"TM"}
ASSUME PrintT(<<"TABLES", ToJson([pkgnames |-> [p \in AllPkgIds |-> PkgName(p, "")], methodorder |-> MethodOrder])>>)

MCQuick    == ShapeQuick \cup IdentQuick \cup CaseClash \cup PkgsQuick \cup EmbedQuick \cup GenericAll \cup MNameAll \cup LocalAll \cup MultiQuick \cup ExtAll \cup ReplAll \cup VariadicAll
MCThorough == ShapeThorough \cup IdentAll \cup CaseClash \cup PkgsThorough \cup EmbedThorough \cup GenericAll \cup MNameAll \cup LocalAll \cup MultiThorough \cup ExtAll \cup ReplAll \cup VariadicAll
\* small smoke set used while developing
MCSmoke    == {ShapeProg(t, "d1") : t \in {Int, N("FX", "T"), Chan("recv", N("FY", "T"))}} \cup {IdentProg(x, "p1") : x \in {"io", "mock", "string"}}
=============================================================================
