---------------------------- MODULE SelectionMC ----------------------------
(* Model constants for Selection.tla: one package holding every declaration kind, the regex universe
   with its Match table (recomputed with Go's regexp by checks/c07.py -- a disagreement is exit 2),
   and the `interfaces:` sections.  MCDecls is exported with the tables; checks/c07.py (decl_text) turns every
   abstract declaration into Go source, so the package under test is a concretisation of this constant. *)
EXTENDS Selection

D(n, k, s, f) == [name |-> n, kind |-> k, scope |-> s, file |-> f]

MCDecls == <<
  D("Reader",     "iface",       "pkg",    "go"),
  D("Writer",     "iface",       "pkg",    "go"),
  D("readCloser", "iface",       "pkg",    "go"),
  D("Gen",        "generic",     "pkg",    "go"),
  D("Gen2",       "generic2",    "pkg",    "go"),
  D("InstDef",    "instDef",     "pkg",    "go"),
  D("InstDef2",   "instDef2",    "pkg",    "go"),
  D("Embedder",   "embed",       "pkg",    "go"),
  D("Empty",      "empty",       "pkg",    "go"),
  D("Grouped",    "ifaceGrouped","pkg",    "go"),
  D("ReadWriter", "embedsLocal", "pkg",    "go"),
  D("Named",      "embedsStd",   "pkg",    "go"),
  D("ReadCloser", "embedsMixed", "pkg",    "go"),
  D("CachedRepo", "embedsGeneric","pkg",   "go"),
  D("InstEmbed",  "embedsInst",  "pkg",    "go"),
  D("ViaAlias",   "embedsAlias", "pkg",    "go"),
  D("InstAlias",  "instAlias",   "pkg",    "go"),
  D("NamedOver",  "namedOver",   "pkg",    "go"),
  D("AliasOver",  "aliasOver",   "pkg",    "go"),
  D("Number",     "union",       "pkg",    "go"),
  D("Mixed",      "mixed",       "pkg",    "go"),
  D("Conf",       "struct",      "pkg",    "go"),
  D("Handler",    "func",        "pkg",    "go"),
  D("AliasConf",  "aliasStruct", "pkg",    "go"),
  D("Holder",     "genStruct",   "pkg",    "go"),
  D("InstHolder", "instStruct",  "pkg",    "go"),
  D("Counter",    "basic",       "pkg",    "go"),
  D("Local",      "iface",       "func",   "go"),
  D("Writer",     "iface",       "func",   "go"),
  D("Conf",       "iface",       "func",   "go"),
  D("LitLocal",   "iface",       "lit",    "go"),
  D("Reader",     "embed",       "lit",    "go"),
  D("MethLocal",  "iface",       "method", "go"),
  D("Second",     "iface",       "pkg",    "go2"),
  D("Gen",        "iface",       "func",   "go2"),
  D("Streamer",   "iface",       "pkg",    "genother"),
  D("Stringer",   "embed",       "pkg",    "genfree"),
  D("Keeper",     "iface",       "pkg",    "genown"),
  D("InTest",     "iface",       "pkg",    "test"),
  D("Tagged",     "iface",       "pkg",    "tagged") >>

\* "reader" / "GEN": names that differ only in case from declared interfaces -- they name nothing in the package
MCNames == {MCDecls[j].name : j \in 1..Len(MCDecls)} \cup {"Missing", "reader", "GEN"}

\* Go regexp.MatchString semantics (unanchored search)
MCMatchSets ==
     "er$"              :> {"Reader", "Writer", "readCloser", "Embedder", "Number", "Handler", "Holder", "InstHolder", "Counter", "NamedOver", "AliasOver", "Streamer", "Stringer", "Keeper", "ReadWriter", "ReadCloser", "reader"}
  @@ "^(Reader|Gen)$"   :> {"Reader", "Gen"}
  @@ "Inst"             :> {"InstDef", "InstDef2", "InstAlias", "InstHolder", "InstEmbed"}
  @@ "(?i)^read"        :> {"Reader", "readCloser", "ReadWriter", "ReadCloser", "reader"}
  @@ "."                :> MCNames
  @@ "^[A-Z][a-z]+$"    :> {"Reader", "Writer", "Gen", "Embedder", "Empty", "Grouped", "Number", "Mixed", "Conf", "Handler", "Holder", "Counter", "Local", "Second", "Tagged", "Missing", "Streamer", "Stringer", "Keeper", "Named"}

MCMatch == [p \in DOMAIN MCMatchSets |-> [n \in MCNames |-> n \in MCMatchSets[p]]]

MCPatsQuick    == <<"er$", "^(Reader|Gen)$", "">>
MCPatsThorough == <<"er$", "^(Reader|Gen)$", "Inst", "(?i)^read", ".", "^[A-Z][a-z]+$", "">>

E(n, f, k) == [name |-> n, form |-> f, n |-> k]
LV0 == << >>
LV1 == <<E("Reader", "null", 0)>>
LV2 == <<E("Reader", "configs", 2), E("InstDef", "config", 0), E("Streamer", "null", 0)>>
LV3 == <<E("Conf", "null", 0), E("Gen", "configs", 1)>>
LV4 == <<E("readCloser", "configs", 0), E("Writer", "configs", 3), E("Keeper", "configs", 2)>>
LV5 == <<E("Missing", "null", 0), E("Second", "configs", 2)>>
LV1c == <<E("reader", "null", 0), E("GEN", "configs", 2), E("Writer", "null", 0)>>
LV1b == <<E("ReadWriter", "null", 0), E("Named", "configs", 2), E("CachedRepo", "config", 0)>>
LV6 == <<E("Local", "null", 0), E("Handler", "config", 0), E("Embedder", "configs", 2)>>
LV7 == <<E("AliasOver", "configs", 2), E("Number", "null", 0), E("InTest", "null", 0)>>
LV8 == <<E("InstHolder", "configs", 2), E("Tagged", "null", 0), E("Empty", "configs", 1), E("Grouped", "config", 0)>>
MCListedQuick    == {LV0, LV1, LV1b, LV1c, LV2, LV3, LV4, LV5}
MCListedThorough == {LV0, LV1, LV1b, LV1c, LV2, LV3, LV4, LV5, LV6, LV7, LV8}

\* Impl => Contract for discovery does not depend on the configuration: checked once
ASSUME DiscoveryRefines(MCDecls)

\* the tables the harness re-derives from the real regexp engine
ASSUME PrintT(<<"TABLE", ToJson([names |-> MCNames, sets |-> MCMatchSets, decls |-> MCDecls])>>)
=============================================================================
