---------------------------- MODULE CodegenTrace ----------------------------
(***************************************************************************)
(* Code -> spec direction for C01 / C02 / C14: the hook trace of every     *)
(* mockery run the checks perform (build tag verif; events Select,         *)
(* Collect, FileBegin, Stage, Generated, Exists, Write, Exit) must be a    *)
(* behaviour of this contract:                                             *)
(*   C02  an interface of a package is selected at most once per run, a    *)
(*        mock type name is collected at most once per output file         *)
(*        ("never mocked twice in one output file");                       *)
(*   C01  a file is generated / written only after its four stages         *)
(*        (template, schema, exec, format) succeeded, in this order, and   *)
(*        a run that exits 0 has written every file it collected.          *)
(* Many runs are concatenated with a `reset` event.                        *)
(***************************************************************************)
EXTENDS Naturals, Sequences, FiniteSets, TLC, Json

Trace == ndJsonDeserialize("trace.ndjson")

VARIABLES l, selected, collected, cur, stages, generated, written, exited, nrej
tvars == <<l, selected, collected, cur, stages, generated, written, exited, nrej>>
state == <<selected, collected, cur, stages, generated, written, exited>>

StageOrder == <<"template", "schema", "exec", "format">>
Ev == Trace[l]
At(e) == l <= Len(Trace) /\ Trace[l].ev = e
Files == {x[1] : x \in collected}
AllStagesOk == Len(stages) = 4 /\ \A i \in 1..4 : stages[i]

TraceInit == l = 1 /\ selected = {} /\ collected = {} /\ cur = "" /\ stages = << >> /\ generated = FALSE /\ written = {}
             /\ exited = FALSE /\ nrej = 0

\* guards: when does the contract accept the next recorded event?
CanReset     == At("reset")
CanSelect    == At("Select") /\ ~exited /\ <<Ev.pkg, Ev.iface>> \notin selected                  \* C02: never twice
CanCollect   == At("Collect") /\ ~exited /\ <<Ev.pkg, Ev.iface>> \in selected
                /\ <<Ev.file, Ev.struct>> \notin collected                                       \* C02: one mock type per name and file
CanFileBegin == At("FileBegin") /\ ~exited /\ cur = "" /\ Ev.file \in Files /\ Ev.file \notin written
CanStage     == /\ At("Stage") /\ ~exited /\ cur # "" /\ ~generated
                /\ Len(stages) < 4 /\ Ev.stage = StageOrder[Len(stages) + 1]                      \* in order, each once
                /\ \A i \in 1..Len(stages) : stages[i]                                           \* nothing runs after a failed stage
CanGenerated == At("Generated") /\ ~exited /\ Ev.file = cur /\ AllStagesOk /\ ~generated
CanExists    == At("Exists") /\ ~exited /\ Ev.file = cur /\ generated
CanWrite     == At("Write") /\ ~exited /\ Ev.file = cur /\ generated /\ AllStagesOk             \* C01: written only after all stages
CanExit      == At("Exit") /\ ~exited /\ ((Ev.code = 0) => (cur = "" /\ Files \subseteq written)) \* C01: exit 0 => all collected written

Clear == selected' = {} /\ collected' = {} /\ cur' = "" /\ stages' = << >> /\ generated' = FALSE /\ written' = {} /\ exited' = FALSE
Step  == l' = l + 1 /\ UNCHANGED nrej

Reset     == CanReset /\ Step /\ Clear
Select    == CanSelect /\ Step /\ selected' = selected \cup {<<Ev.pkg, Ev.iface>>}
             /\ UNCHANGED <<collected, cur, stages, generated, written, exited>>
Collect   == CanCollect /\ Step /\ collected' = collected \cup {<<Ev.file, Ev.struct>>}
             /\ UNCHANGED <<selected, cur, stages, generated, written, exited>>
FileBegin == CanFileBegin /\ Step /\ cur' = Ev.file /\ stages' = << >> /\ generated' = FALSE
             /\ UNCHANGED <<selected, collected, written, exited>>
Stage     == CanStage /\ Step /\ stages' = Append(stages, Ev.ok)
             /\ UNCHANGED <<selected, collected, cur, generated, written, exited>>
Generated == CanGenerated /\ Step /\ generated' = TRUE /\ UNCHANGED <<selected, collected, cur, stages, written, exited>>
Exists    == CanExists /\ Step /\ UNCHANGED state
Write     == CanWrite /\ Step /\ written' = written \cup {Ev.file} /\ cur' = "" /\ stages' = << >> /\ generated' = FALSE
             /\ UNCHANGED <<selected, collected, exited>>
Exit      == CanExit /\ Step /\ exited' = TRUE /\ UNCHANGED <<selected, collected, cur, stages, generated, written>>

\* the contract rejects the event: report it, drop the rest of this run (up to the next reset) and go on
NextReset == IF \E k \in (l + 1)..Len(Trace) : Trace[k].ev = "reset"
             THEN CHOOSE k \in (l + 1)..Len(Trace) : Trace[k].ev = "reset" /\ \A m \in (l + 1)..(k - 1) : Trace[m].ev # "reset"
             ELSE Len(Trace) + 1
Reject == /\ l <= Len(Trace)
          /\ ~(CanReset \/ CanSelect \/ CanCollect \/ CanFileBegin \/ CanStage \/ CanGenerated \/ CanExists \/ CanWrite \/ CanExit)
          /\ PrintT(<<"REJECT", ToJson([at |-> l - 1])>>)
          /\ l' = NextReset /\ nrej' = nrej + 1 /\ Clear

\* end of the recording: report how many events the contract rejected (acceptance = none)
Done == /\ l = Len(Trace) + 1
        /\ PrintT(<<"DONE", ToJson([rejected |-> nrej, events |-> Len(Trace)])>>)
        /\ l' = l + 1 /\ UNCHANGED <<selected, collected, cur, stages, generated, written, exited, nrej>>

TraceNext == Done \/ Reset \/ Select \/ Collect \/ FileBegin \/ Stage \/ Generated \/ Exists \/ Write \/ Exit \/ Reject
TraceSpec == TraceInit /\ [][TraceNext]_tvars

TraceAccepted == PrintT(<<"CONSUMED", TLCGet("stats").diameter - 1, Len(Trace)>>)
=============================================================================
