------------------------- MODULE ConfigTreeTraceMC -------------------------
EXTENDS ConfigTreeTrace, ConfigTreeShape
MCUnchecked == {"p1x"}
=============================================================================
