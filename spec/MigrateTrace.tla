---------------------------- MODULE MigrateTrace ----------------------------
(***************************************************************************)
(* Trace validation for C19: the op log recorded by checks/c19.py while    *)
(* driving the real `mockery migrate` and `mockery showconfig` must be     *)
(* accepted by the contract (MigrateContract.tla), evaluated by TLC on     *)
(* what the real code wrote.                                               *)
(*   case    : the v2 tree that was materialised (level -> key -> text),   *)
(*             whether it is a decodable v2 file                           *)
(*   migrate : exit status, panic, hash of the input before/after, whether *)
(*             an output file was written, the v3 tree read back from it   *)
(*             by an independent YAML reader (level -> path -> text)       *)
(*   load    : `mockery showconfig` on the written file: exit status,      *)
(*             panic, the values in effect per level                       *)
(***************************************************************************)
EXTENDS MigrateContract, TLC, Json

Trace == ndJsonDeserialize("trace.ndjson")

VARIABLES v2,        \* the v2 tree of the current case
          decodable, \* it is a decodable v2 file
          lay,       \* the layout the command ran in
          migrated,  \* migrate was accepted for this case (so the load is judged)
          skipping, rej, l
tvars == <<v2, decodable, lay, migrated, skipping, rej, l>>

Ev == Trace[l]
ToSet(q) == {q[i] : i \in 1..Len(q)}
IsEvent(e) == l <= Len(Trace) /\ Trace[l].op = e /\ l' = l + 1

TraceInit == v2 = << >> /\ decodable = FALSE /\ lay = << >> /\ migrated = FALSE /\ skipping = FALSE /\ rej = << >> /\ l = 1
             /\ TLCSet(1, << >>)

CCase == v2' = Ev.v2 /\ decodable' = Ev.decodable /\ lay' = Ev.lay /\ migrated' = FALSE /\ skipping' = FALSE /\ UNCHANGED rej

MigrateOK ==
  /\ ~Ev.panic                                   \* never a crash
  /\ Ev.in_after = Ev.in_before                  \* the input file is left unmodified
  /\ IF decodable
     THEN /\ FilesOK(lay, ToSet(Ev.changed))
          /\ lay.out # "input" => Ev.exit = 0 /\ Ev.wrote /\ TreeOK(v2, Ev.v3)
     ELSE "input" \notin ToSet(Ev.changed)                                   \* not a v2 file: nothing more is promised (strict decoding makes
                                                 \* the command refuse it today; the statement does not require that)
CMigrate == migrated' = (decodable /\ lay.out # "input") /\ UNCHANGED <<v2, decodable, lay>>

LoadOK == migrated => Ev.exit = 0 /\ ~Ev.panic /\ LoadedOK(v2, Ev.eff)
CLoad == UNCHANGED <<v2, decodable, lay, migrated>>

Step(e, ok, act) ==
  /\ IsEvent(e)
  /\ IF skipping THEN UNCHANGED <<v2, decodable, lay, migrated, skipping, rej>>
     ELSE IF ok THEN act /\ UNCHANGED <<skipping, rej>>
     ELSE rej' = Append(rej, l) /\ TLCSet(1, Append(rej, l)) /\ skipping' = TRUE /\ UNCHANGED <<v2, decodable, lay, migrated>>

TraceNext ==
  \/ IsEvent("case") /\ CCase
  \/ Step("migrate", MigrateOK, CMigrate)
  \/ Step("load", LoadOK, CLoad)

TraceSpec == TraceInit /\ [][TraceNext]_tvars

Consumed == TLCGet("stats").diameter - 1
TraceAccepted == /\ PrintT(<<"CONSUMED", Consumed, Len(Trace)>>)
                 /\ PrintT(<<"REJECTED", ToJson(TLCGet(1))>>)
                 /\ Consumed = Len(Trace)
                 /\ TLCGet(1) = << >>
=============================================================================
