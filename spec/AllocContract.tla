--------------------------- MODULE AllocContract ---------------------------
(***************************************************************************)
(* C15, contract layer: the allocators as the property states them.       *)
(* Replies are parameters of the actions: the contract never says WHICH    *)
(* fresh name / qualifier is returned, only that it is fresh, stable and   *)
(* injective.  Alloc.tla (suffix/alias search, shaped like the code) is    *)
(* checked to refine this; AllocTrace.tla validates replies recorded from  *)
(* the real template.Registry / template.MethodScope against it.           *)
(***************************************************************************)
EXTENDS Naturals, Sequences, FiniteSets

CONSTANT PathOrder      \* sequence of all import paths in ascending (byte-wise) order

VARIABLES visible,      \* names visible in the current method scope
          imp,          \* path -> qualifier
          inpkg,        \* registry created in-package?
          dst           \* destination package path

cvars == <<visible, imp, inpkg, dst>>

CRange(f) == {f[x] : x \in DOMAIN f}
CExtend(f, k, v) == [x \in DOMAIN f \cup {k} |-> IF x = k THEN v ELSE f[x]]
Rank(p) == CHOOSE i \in 1..Len(PathOrder) : PathOrder[i] = p

CAddName(n)        == visible' = visible \cup {n} /\ UNCHANGED <<imp, inpkg, dst>>
CNameExists(n, b)  == b = (n \in visible) /\ UNCHANGED cvars
CSuggestName(r)    == r \notin visible /\ r # "" /\ UNCHANGED cvars                \* pure
CAllocateName(r)   == r \notin visible /\ r # "" /\ visible' = visible \cup {r}    \* fresh and recorded
                      /\ UNCHANGED <<imp, inpkg, dst>>

\* AddImport: nil only for the in-package self import; otherwise the recorded qualifier for a
\* known path, or a qualifier no other import has for a new one.
CAddImport(path, nil, q) ==
  IF nil THEN inpkg /\ path = dst /\ UNCHANGED cvars
  ELSE /\ ~(inpkg /\ path = dst)
       /\ q # ""
       /\ IF path \in DOMAIN imp THEN q = imp[path] /\ UNCHANGED cvars
          ELSE q \notin CRange(imp) /\ imp' = CExtend(imp, path, q) /\ UNCHANGED <<visible, inpkg, dst>>

\* Imports(): each path once, sorted by path, with the recorded qualifiers
CImports(paths, quals) ==
  /\ Len(paths) = Cardinality(DOMAIN imp)
  /\ {paths[i] : i \in 1..Len(paths)} = DOMAIN imp
  /\ \A i \in 1..Len(paths) : \A j \in 1..Len(paths) : i < j => Rank(paths[i]) < Rank(paths[j])
  /\ Len(quals) = Len(paths)
  /\ \A i \in 1..Len(paths) : quals[i] = imp[paths[i]]
  /\ UNCHANGED cvars

CPkgQualifier(path, found, q) ==
  /\ found = (path \in DOMAIN imp)
  /\ found => q = imp[path]
  /\ UNCHANGED cvars

\* a scope produced by the registry at any point; vis is whatever that scope reports as visible
\* ... and it sees every qualifier the file has imported so far (they are names visible in every method)
CNewScope(vis) == CRange(imp) \subseteq vis /\ visible' = vis /\ UNCHANGED <<imp, inpkg, dst>>
\* the scope produced for a method sees the qualifiers of the file's imports at that point
\* and the names of the method's own parameters and results (must), as offered to the template
CScopeSees(vis, must) == CRange(imp) \subseteq vis /\ must \subseteq vis /\ UNCHANGED cvars

CReset(ip, d, vis) == visible' = vis /\ imp' = << >> /\ inpkg' = ip /\ dst' = d

\* safety statements of C15 that hold in every contract behaviour
CDistinctQualifiers == \A p, q \in DOMAIN imp : p # q => imp[p] # imp[q]
=============================================================================
