--------------------------- MODULE AllocContract ---------------------------
(***************************************************************************)
(* C15, contract layer: the allocators as the property states them.       *)
(* Replies are parameters of the actions: the contract never says WHICH    *)
(* fresh name / qualifier is returned, only that it is fresh, stable and   *)
(* injective.  Alloc.tla (suffix/alias search, shaped like the code) is    *)
(* checked to refine this; AllocTrace.tla validates replies recorded from  *)
(* the real template.Registry / template.MethodScope against it.           *)
(***************************************************************************)
EXTENDS Naturals, Sequences, FiniteSets

CONSTANT PathOrder      \* sequence of all import paths in ascending (byte-wise) order

VARIABLES visible,      \* names visible in the current method scope
          imp,          \* REPORTED path (Package.Path()) -> qualifier: what the registry lists
          req,          \* requested path -> reported path (the registry may report a normalised path)
          inpkg,        \* registry created in-package?
          dst,          \* destination package path
          others,       \* names registered in the scope by somebody other than the variable mechanism: visible at
                        \* creation, AddName, AllocateName, the qualifiers / type names AddVar registered
          nvars         \* number of variables added to the scope (AddVar)

cvars == <<visible, imp, req, inpkg, dst, others, nvars>>

CRange(f) == {f[x] : x \in DOMAIN f}
CExtend(f, k, v) == [x \in DOMAIN f \cup {k} |-> IF x = k THEN v ELSE f[x]]
CToSet(s) == {s[i] : i \in 1..Len(s)}
CDistinct(s) == \A i, j \in 1..Len(s) : i # j => s[i] # s[j]
Rank(p) == CHOOSE i \in 1..Len(PathOrder) : PathOrder[i] = p

CAddName(n)        == visible' = visible \cup {n} /\ others' = others \cup {n} /\ UNCHANGED <<imp, req, inpkg, dst, nvars>>
CNameExists(n, b)  == b = (n \in visible) /\ UNCHANGED cvars
CSuggestName(r)    == r \notin visible /\ r # "" /\ UNCHANGED cvars                \* pure
CAllocateName(r)   == r \notin visible /\ r # "" /\ visible' = visible \cup {r}    \* fresh and recorded
                      /\ others' = others \cup {r}
                      /\ UNCHANGED <<imp, req, inpkg, dst, nvars>>

\* The registry part of adding an import, stated over what the registry REPORTS.  nil only for the in-package
\* self import; otherwise the returned package reports a path rpath and a qualifier q: the same request reports
\* the same path every time, a reported path that is already listed keeps its qualifier, and a newly listed
\* one gets a qualifier no other listed import has.
CImportRel(path, rpath, nil, q) ==
  IF nil THEN inpkg /\ path = dst /\ UNCHANGED <<imp, req>>
  ELSE /\ ~(inpkg /\ path = dst)
       /\ q # "" /\ rpath # ""
       /\ path \in DOMAIN req => req[path] = rpath
       /\ req' = CExtend(req, path, rpath)
       /\ IF rpath \in DOMAIN imp THEN q = imp[rpath] /\ imp' = imp
          ELSE q \notin CRange(imp) /\ imp' = CExtend(imp, rpath, q)

CAddImport(path, rpath, nil, q) == CImportRel(path, rpath, nil, q) /\ UNCHANGED <<visible, inpkg, dst, others, nvars>>

\* Imports(): each reported path once, sorted by path, with the recorded qualifiers
CImports(paths, quals) ==
  /\ Len(paths) = Cardinality(DOMAIN imp)
  /\ {paths[i] : i \in 1..Len(paths)} = DOMAIN imp
  /\ \A i \in 1..Len(paths) : \A j \in 1..Len(paths) : i < j => Rank(paths[i]) < Rank(paths[j])
  /\ Len(quals) = Len(paths)
  /\ \A i \in 1..Len(paths) : quals[i] = imp[paths[i]]
  /\ UNCHANGED cvars

\* PkgQualifier(p) agrees with the listed entry for p
CPkgQualifier(path, found, q) ==
  /\ found = (path \in DOMAIN imp)
  /\ found => q = imp[path]
  /\ UNCHANGED cvars

\* a scope produced by the registry at any point; vis is whatever that scope reports as visible
\* ... and it sees every qualifier the file has imported so far (they are names visible in every method)
CNewScope(vis) == CRange(imp) \subseteq vis /\ visible' = vis /\ others' = vis /\ nvars' = 0 /\ UNCHANGED <<imp, req, inpkg, dst>>
\* the scope produced for a method sees the qualifiers of the file's imports at that point
\* and the names of the method's own parameters and results (must, in declaration order), as offered to the
\* template; those names are pairwise distinct and none equals a qualifier of the file's imports
CScopeSees(vis, must) == /\ CRange(imp) \subseteq vis /\ CToSet(must) \subseteq vis
                         /\ CDistinct(must) /\ CToSet(must) \cap CRange(imp) = {}
                         /\ UNCHANGED cvars

\* AddVar: a variable whose type lives in package path ("" = none) is added to the scope.  The package is
\* imported into the file (as by AddImport) and its qualifier is registered in the scope, and so is the type's
\* name tstr when that is itself an identifier (tident: a type of the file's own package, a predeclared type);
\* vis is what the scope reports as visible afterwards.  The variable's provisional name is not constrained.
CAddVar(path, rpath, nil, q, tstr, tident, vis) ==
  /\ IF path = "" THEN UNCHANGED <<imp, req>> ELSE CImportRel(path, rpath, nil, q)
  /\ others' = others \cup (IF tident THEN {tstr} ELSE {}) \cup (IF path = "" \/ nil THEN {} ELSE {q})
  /\ (IF path = "" \/ nil THEN {} ELSE {q}) \subseteq vis     \* the scope sees the qualifier (not necessarily the type name)
  /\ visible \subseteq vis
  /\ visible' = vis
  /\ nvars' = nvars + 1
  /\ UNCHANGED <<inpkg, dst>>

\* ResolveVariableNameCollisions: the final names of the scope's variables (in order) are pairwise distinct,
\* differ from every name somebody else registered in the scope (qualifier, type name, reservation, allocation),
\* and are visible afterwards together with all of those.
CResolve(names, vis) ==
  /\ Len(names) = nvars
  /\ CDistinct(names)
  /\ \A i \in 1..Len(names) : names[i] # "" /\ names[i] \notin others
  /\ (others \cap visible) \cup CToSet(names) \subseteq vis
  /\ visible' = vis
  /\ others' = others \cup CToSet(names)
  /\ UNCHANGED <<imp, req, inpkg, dst, nvars>>

CReset(ip, d, vis) == visible' = vis /\ imp' = << >> /\ req' = << >> /\ inpkg' = ip /\ dst' = d /\ others' = vis /\ nvars' = 0

\* safety statements of C15 that hold in every contract behaviour
CDistinctQualifiers == \A p, q \in DOMAIN imp : p # q => imp[p] # imp[q]
=============================================================================
