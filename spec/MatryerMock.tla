----------------------------- MODULE MatryerMock -----------------------------
(***************************************************************************)
(* C04 -- call-log semantics of a generated matryer-style mock, sequential.*)
(*                                                                         *)
(* Code-shaped layer: the mock's methods are transcribed statement by      *)
(* statement from internal/mock_matryer.templ (line numbers in comments).  *)
(* The contract (MatryerMockContract.tla) is checked on every step as the  *)
(* action properties named after the clauses of C04.  Every transition TLC *)
(* generates is exported (CASE line) with a representative history whose   *)
(* events carry the reply / forwarded calls / MCalls() contents this layer *)
(* expects; checks/c04.py replays the histories on mocks freshly generated *)
(* by the real binary and MatryerMockTrace.tla judges what the mocks did.  *)
(***************************************************************************)
EXTENDS MatryerMockContract, TLC, Json

CONSTANTS Shapes,      \* set of [ar, var, nres] for method A (B is fixed, see BShape)
          Opts,        \* set of [stub, resets] (skip-ensure has no run-time meaning: fanned out on replay)
          FuncsA,      \* function ids method A's AFunc ranges over (besides nil)
          FuncsB,
          MaxHist,     \* history length bound for the shapes in DeepShapes
          ShallowHist, \* history length bound for the other shapes
          DeepShapes,
          MaxRecs      \* bound on Len(log[A]) + Len(log[B])

VARIABLES sig,         \* method -> shape
          opt,
          func,        \* method -> function id or Nil          (the MFunc fields)
          log,         \* method -> sequence of records          (mock.calls.M)
          init,        \* func at construction (struct literal); observation
          last, hist,  \* observation
          snaps,       \* retained MCalls() results (history variable, see MatryerMockContract!ReturnedRecordsStable)
          xlog,        \* records of the third method X (called once up front, never in the histories)
          stale        \* method -> records of it were handed out by MCalls() and then reset away.  Part of the VIEW:
                       \* "call; reset" must not be identified with the initial state, or read -> reset -> call(s) ->
                       \* re-inspect would never be explored

vars == <<sig, opt, func, log, init, last, hist, snaps, stale, xlog>>
view == <<sig, opt, func, log, stale, xlog>>

BShape == [ar |-> 1, var |-> FALSE, nres |-> 1]

Init == /\ sig \in {[m \in Methods |-> IF m = "A" THEN s ELSE BShape] : s \in Shapes}
        /\ opt \in Opts
        /\ func \in {[m \in Methods |-> IF m = "A" THEN a ELSE b] : a \in FuncsA \cup {Nil}, b \in FuncsB}
        /\ init = func
        /\ log = [m \in Methods |-> << >>]
        /\ last = [op |-> "init"]
        /\ hist = << >>
        /\ snaps = << >>
        /\ stale = [m \in Methods |-> FALSE]
        /\ xlog = XLog0

NoReply   == [kind |-> "ret", res |-> << >>, names |-> FALSE, inner |-> << >>, seen |-> << >>]
Ret(r)    == [kind |-> "ret", res |-> r, names |-> FALSE, inner |-> << >>, seen |-> << >>]
FnIsNil(fn) == [m \in Methods |-> fn[m] = Nil]

Ev(op, m, f, args, reply, fwd, lg, fn) ==
  [op |-> op, m |-> m, f |-> f, args |-> args, reply |-> reply, fwd |-> fwd, logs |-> lg, fnil |-> FnIsNil(fn),
   by |-> ByLogs(sig), snaps |-> snaps,     \* the abstract log has no aliasing: retained results never change
   xlog |-> IF op = "resetall" THEN << >> ELSE xlog,
   after |-> args,                          \* placeholder; the expectation per concrete type set is afterby
   afterby |-> [ts \in TypeSetNames |-> IF op = "call" THEN AfterFor(ts, m, sig[m], func[m], args) ELSE << >>]]

Do(e) == /\ last' = e
         /\ hist' = Append(hist, e)
         /\ snaps' = SnapsAfter(snaps, log, e)

---------------------------------------------------------------------------
(* mock_matryer.templ:91-131, one LET per statement *)
Record(m, args) == [i \in 1..sig[m].ar |-> args[i]]                    \* :98-106  callInfo := struct{...}{...}
Appended(lg, m, args) == [lg EXCEPT ![m] = Append(@, Record(m, args))]    \* :107-109 lock; append; unlock

\* what the user's function does when the mock forwards to it (:121 / :128), given the log at that moment
Forward(m, f, args, lg) ==
  LET nres == sig[m].nres IN
  CASE f = "FP" -> [reply |-> [kind |-> "panic", res |-> << >>, names |-> FALSE, inner |-> << >>, seen |-> << >>],
                    fwd |-> <<Fwd(m, f, args)>>, logs |-> lg]
    [] f = "FR" -> \* the function calls the same method once more (nested call runs :94-121 again)
                   LET ia  == InnerArgs(sig[m])
                       lg2 == Appended(lg, m, ia)
                   IN [reply |-> [kind |-> "ret", res |-> Results(f, args, nres), names |-> FALSE,
                                  inner |-> Results(f, ia, nres), seen |-> <<lg["B"], lg["B"]>>],
                       fwd |-> <<Fwd(m, f, args), Fwd(m, f, ia)>>, logs |-> lg2]
    [] OTHER    -> [reply |-> Ret(Results(f, args, nres)), fwd |-> <<Fwd(m, f, args)>>, logs |-> lg]

CallImpl(m, args) ==
  IF ~opt.stub /\ func[m] = Nil                                         \* :93-97 nil check, panic BEFORE recording
  THEN [reply |-> [kind |-> "panic", res |-> << >>, names |-> TRUE, inner |-> << >>, seen |-> << >>], fwd |-> << >>, logs |-> log]
  ELSE LET lg1 == Appended(log, m, args) IN
       IF opt.stub /\ func[m] = Nil                                      \* :111-120 / :123-127 zero values
       THEN [reply |-> Ret(Zeros(sig[m].nres)), fwd |-> << >>, logs |-> lg1]
       ELSE Forward(m, func[m], args, lg1)                               \* :121 / :128

Call(m, v, n) ==
  LET args == Args(sig[m], v, n)
      r    == CallImpl(m, args) IN
  /\ log' = r.logs
  /\ Do(Ev("call", m, "", args, r.reply, r.fwd, r.logs, func))
  /\ UNCHANGED <<sig, opt, func, init, stale, xlog>>

ResetM(m) ==                                                             \* :151-157
  /\ opt.resets
  /\ log' = [log EXCEPT ![m] = << >>]
  /\ Do(Ev("resetm", m, "", << >>, NoReply, << >>, log', func))
  /\ stale' = [stale EXCEPT ![m] = @ \/ log[m] # << >>]
  /\ UNCHANGED <<sig, opt, func, init, xlog>>

ResetAll ==                                                              \* :160-168
  /\ opt.resets
  /\ log' = [m \in Methods |-> << >>]
  /\ Do(Ev("resetall", "", "", << >>, NoReply, << >>, log', func))
  /\ stale' = [m \in Methods |-> stale[m] \/ log[m] # << >>]
  /\ xlog' = << >>                                                       \* :163-167 ranges over ALL methods
  /\ UNCHANGED <<sig, opt, func, init>>

SetFunc(m, f) ==                                                         \* user code: mock.MFunc = f
  /\ func[m] # f
  /\ func' = [func EXCEPT ![m] = f]
  /\ Do(Ev("setfunc", m, f, << >>, NoReply, << >>, log, func'))
  /\ UNCHANGED <<sig, opt, log, init, stale, xlog>>

\* call alphabet: two tags on A (the second only once there is a record to be ordered against or a handed-out record
\* that a new call could overwrite), variadic lengths 0, 1, 2; on B one tag, a second one after its records were reset away
CallsOf(m) ==
  IF m = "B" THEN {<<1, 0>>} \cup (IF stale[m] THEN {<<2, 0>>} ELSE {})
  ELSE IF sig[m].var THEN {<<1, 2>>, <<1, 0>>} \cup (IF log[m] # << >> \/ stale[m] THEN {<<2, 1>>} ELSE {})
  ELSE {<<1, 0>>} \cup (IF (log[m] # << >> \/ stale[m]) /\ sig[m].ar > 0 THEN {<<2, 0>>} ELSE {})

Recs == Len(log["A"]) + Len(log["B"])

HistBound == IF sig["A"] \in DeepShapes THEN MaxHist ELSE ShallowHist

Next == /\ Len(hist) < HistBound
        /\ \/ \E m \in Methods : \E c \in CallsOf(m) : Recs < MaxRecs /\ Call(m, c[1], c[2])
           \/ \E m \in Methods : ResetM(m)
           \/ ResetAll
           \/ \E f \in FuncsA \cup {Nil} : SetFunc("A", f)
           \/ \E f \in FuncsB \cup {Nil} : SetFunc("B", f)

Spec == Init /\ [][Next]_vars

---------------------------------------------------------------------------
(* Contract (C04): each clause is an action property over the step just taken *)
Stepped == Len(hist') > Len(hist)
IsCall  == Stepped /\ last'.op = "call"
P_OneRecordPerCallInOrder   == [][IsCall => OneRecordPerCallInOrder(sig, opt, func, log, last')]_vars
P_FieldsInParameterOrder    == [][IsCall => FieldsInParameterOrder(sig, opt, func, log, last')]_vars
P_ForwardedExactlyOnce      == [][IsCall => ForwardedExactlyOnce(sig, opt, func, log, last')]_vars
P_ResultsAreFuncResults     == [][IsCall => ResultsAreFuncResults(sig, opt, func, log, last')]_vars
P_NilFuncContract           == [][IsCall => NilFuncContract(sig, opt, func, log, last')]_vars
P_ResetEmptiesOnlyItsTarget == [][Stepped /\ last'.op \in {"resetm", "resetall"} =>
                                    ResetEmptiesOnlyItsTarget(sig, opt, func, log, last')]_vars
P_StepOK                    == [][Stepped => (\A ts \in TypeSetNames :
                                                StepOK(sig, opt, ts, func, log, ByLogs(sig), snaps, xlog,
                                                       [last' EXCEPT !.after = last'.afterby[ts]]))
                                             /\ func' = FuncsAfter(func, last')
                                             /\ log' = last'.logs]_vars

TypeOK == /\ \A m \in Methods : func[m] \in FuncIds \cup {Nil}
          /\ Recs <= MaxRecs + 1

---------------------------------------------------------------------------
(* Export: every generated transition, with a representative history leading to it *)
Case == [sig |-> sig, opt |-> opt, init |-> init, inner |-> InnerArgs(sig["A"]), byargs |-> ByArgs(sig), xargs |-> XArgs, ops |-> hist]
Emit == IF Len(hist) > 0 /\ TLCGet("config").mode = "bfs" THEN PrintT(<<"CASE", ToJson(Case)>>) ELSE TRUE
EmitAtDepth == IF Len(hist) = MaxHist THEN PrintT(<<"CASE", ToJson(Case)>>) ELSE TRUE
=============================================================================
