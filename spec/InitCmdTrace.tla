---------------------------- MODULE InitCmdTrace ----------------------------
(***************************************************************************)
(* Trace validation for C18: the op log recorded by checks/c18.py while    *)
(* driving the real binary (op, arguments, exit status, snapshot of the    *)
(* target path before/after, what the loaders returned, what was mocked)   *)
(* must be a behaviour of the contract (InitCmdContract.tla).              *)
(*                                                                         *)
(* Snapshots are strings: "absent" | "file:<sha>" | "dir:<sha>" |          *)
(* "link:<dest>:<sha of what it points to>".                               *)
(***************************************************************************)
EXTENDS InitCmdContract, TLC, Json

Trace == ndJsonDeserialize("trace.ndjson")

VARIABLES cur,        \* snapshot of the target path
          by,         \* the package string the current content was written for by init, or None
          parentOK,   \* the directory of the target path exists
          gop,        \* the Go packages of the world: sequence of [s |-> path, ifaces |-> <<names>>, may |-> <<names>>, files |-> <<file classes>>]
          ran,        \* package strings a plain run was already attempted for
          skipping,   \* the current case was rejected: its remaining events are skipped
          rej,        \* indices (1-based) of the events the contract rejected, one per rejected case
          l
tvars == <<cur, by, parentOK, gop, ran, skipping, rej, l>>

ToSet(s) == {s[i] : i \in 1..Len(s)}
Ev == Trace[l]
IsEvent(e) == l <= Len(Trace) /\ Trace[l].op = e /\ l' = l + 1

TraceInit == cur = "absent" /\ by = None /\ parentOK = TRUE /\ gop = << >> /\ ran = {} /\ skipping = FALSE
             /\ rej = << >> /\ l = 1
             /\ TLCSet(1, << >>)      \* the postcondition cannot read variables: rej is mirrored in register 1

CReset ==
  /\ cur' = Ev.snap /\ by' = None /\ parentOK' = Ev.parent_ok /\ gop' = Ev.gopkgs /\ ran' = {}
  /\ skipping' = FALSE /\ UNCHANGED rej

\* a. init
InitOK ==
  /\ Ev.before = cur                                         \* continuity of the log
  /\ (Ev.presence = "no") <=> (cur = "absent")
  /\ ~Ev.hang                                               \* failure is REPORTED: the command ends
  /\ \E o \in (IF Ev.argc = 1 THEN InitAllowed(Ev.presence, parentOK) ELSE InitAllowedOtherArgs(Ev.presence)) :
       /\ o.ok = (Ev.exit = 0)
       /\ o.after = "same" => Ev.after = Ev.before /\ ~Ev.created
       /\ o.after = "created" => Ev.created /\ Ev.after # Ev.before /\ Ev.after # "absent"
  /\ Ev.elsewhere = << >>            \* created exactly there: nothing else in the tree is created, changed or removed
CInit ==
  /\ cur' = Ev.after
  /\ by' = IF Ev.created THEN (IF Ev.argc = 1 THEN Ev.pkg ELSE None) ELSE by
  /\ UNCHANGED <<parentOK, gop, ran>>

\* a'. n concurrent inits on the target path (one event: their exit statuses counted, the package string of
\* the one that reported success, the snapshot after all have ended)
RaceOK ==
  /\ Ev.before = cur
  /\ (Ev.presence = "no") <=> (cur = "absent")
  /\ parentOK
  /\ RaceAllowed(Ev.presence, Ev.oks)
  /\ Ev.oks = 1 => Ev.created /\ Ev.after # Ev.before /\ Ev.after # "absent"
  /\ Ev.oks = 0 => Ev.after = Ev.before
CRace ==
  /\ cur' = Ev.after
  /\ by' = IF Ev.oks = 1 THEN Ev.winner ELSE by
  /\ UNCHANGED <<parentOK, gop, ran>>

\* b, c, d. load (showconfig + independent YAML read of the file)
LoadOK ==
  /\ Ev.before = cur
  /\ LET e == LoadExpect(by) IN
       e.judged => /\ (Ev.exit = 0) = e.ok
                   /\ Ev.keys = e.keys            \* mockery's own loader
                   /\ Ev.fkeys = e.keys           \* independent YAML reader
                   /\ Ev.all = e.all
                   /\ DefaultsStated(Ev.top)
                   /\ DefaultsInEffect(Ev.eff)
CLoad ==
  /\ cur' = Ev.after
  /\ by' = IF Ev.after = Ev.before THEN by ELSE None
  /\ UNCHANGED <<parentOK, gop, ran>>

\* e. plain run
GoIdx(s) == {i \in 1..Len(gop) : gop[i].s = s}
RunOK ==
  /\ Ev.before = cur
  /\ LET isPkg == GoIdx(by) # {}
         g == gop[CHOOSE i \in GoIdx(by) : TRUE]
         \* a package given by its source files (g.files: file classes): what it declares is worked out here
         ifs == IF isPkg THEN ToSet(g.ifaces) \cup FilesIfaces(ToSet(g.files)) ELSE {}
         may == IF isPkg THEN ToSet(g.may) \cup FilesMay(ToSet(g.files)) ELSE {}
         e == RunExpect(by, isPkg, ifs, may, by \in ran)
     IN e.judged => (Ev.exit = 0) = e.ok /\ MockedOK(e, ToSet(Ev.mocked)) /\ MockedOnce(Ev.mocked)
CRun ==
  /\ cur' = Ev.after
  /\ by' = IF Ev.after = Ev.before THEN by ELSE None
  /\ ran' = IF by = None THEN ran ELSE ran \cup {by}
  /\ UNCHANGED <<parentOK, gop>>

\* One step per event.  An event the contract accepts updates the contract state; the first event of a case
\* the contract does not accept is recorded in rej and the rest of that case is skipped, so that one run
\* of TLC reports every rejected case (the trace is accepted only when rej stays empty).
Step(e, ok, act) ==
  /\ IsEvent(e)
  /\ IF skipping THEN UNCHANGED <<cur, by, parentOK, gop, ran, skipping, rej>>
     ELSE IF ok THEN act /\ UNCHANGED <<skipping, rej>>
     ELSE rej' = Append(rej, l) /\ TLCSet(1, Append(rej, l)) /\ skipping' = TRUE
          /\ UNCHANGED <<cur, by, parentOK, gop, ran>>

TraceNext ==
  \/ IsEvent("reset") /\ CReset
  \/ Step("init", InitOK, CInit)
  \/ Step("race", RaceOK, CRace)
  \/ Step("load", LoadOK, CLoad)
  \/ Step("run", RunOK, CRun)

TraceSpec == TraceInit /\ [][TraceNext]_tvars

Consumed == TLCGet("stats").diameter - 1
TraceAccepted == /\ PrintT(<<"CONSUMED", Consumed, Len(Trace)>>)
                 /\ PrintT(<<"REJECTED", ToJson(TLCGet(1))>>)
                 /\ Consumed = Len(Trace)
                 /\ TLCGet(1) = << >>
=============================================================================
