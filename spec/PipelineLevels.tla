--------------------------- MODULE PipelineLevels ---------------------------
(* Exports the contract's resolution of force-file-write over the four configuration levels: every assignment of
   {unset, T, F} to root / pkg / iface / entry with the effective value (most specific level wins, default false).
   The harness picks, for each replayed world, level assignments whose effective value is the one of the world. *)
EXTENDS PipelineMC
ASSUME EmitLevels
=============================================================================
