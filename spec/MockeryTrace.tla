---------------------------- MODULE MockeryTrace ----------------------------
(***************************************************************************)
(* Trace specification over the COMPLETE hook-event stream of `mockery`    *)
(* runs (build tag verif; `grep -rn verifhook.Emit /repo`): InitBegin,     *)
(* InitPkg, Recursive, Exclude, Inject, InitEnd, Parsed, Select,           *)
(* ResolveIter, ResolveLoop, Resolved, Collect, FileBegin, Stage,          *)
(* Generated, Exists, Write, Missing, Failpoint, Exit -- plus two          *)
(* observations the harness appends: ProcExit (status seen by the          *)
(* operating system) and, when the caller hashed the tree before and       *)
(* after, Tree (files whose content changed).                              *)
(*                                                                         *)
(* It binds the RUN SKELETON of the root specification (the clauses Chk    *)
(* and effects SkEff of MockerySkeleton.tla, the very operators every      *)
(* action of Mockery.tla is built from) to recorded events:                *)
(*      IsEvent /\ e = Trace[l] /\ Sk(e)                                   *)
(* lib/runtrace.py projects the raw events to the records Chk reads (it    *)
(* only renames fields and splits paths into segments), puts a `reset`     *)
(* in front of each run -- carrying the contract's expectation of that     *)
(* run when the caller has one (exported by TLC with the case) -- and      *)
(* concatenates many runs into one trace.ndjson.                           *)
(*                                                                         *)
(* The spec is deterministic: an event whose clauses do not all hold marks *)
(* the run REJECTed (printed with the names of the violated clauses) and   *)
(* the rest of that run is skipped, so one TLC pass judges every run.      *)
(* What the code additionally does (Drift) is printed as DRIFT, never a    *)
(* verdict.                                                                *)
(*                                                                         *)
(* What this sees that PipelineTrace / SelectionTrace / RecursiveTrace /   *)
(* OrderTrace / ConfigTreeTrace / TemplateResolveTrace / SchemaTrace       *)
(* cannot (each reads its own events only): Select -> Resolved -> Collect  *)
(* pairing, Collect.file = clean join of Resolved.dir and .filename,       *)
(* Collect.struct / pkgname = Resolved values, FileBegin.n = number of     *)
(* Collects into the file, Stage(template).template / .schema = what was   *)
(* collected / resolved for the file's first mock, pass 2 of Initialize    *)
(* against pass 1, Missing vs Select, Exit 0 vs every earlier phase, Tree  *)
(* vs Write.                                                               *)
(***************************************************************************)
EXTENDS MockerySkeleton, Json

Trace == ndJsonDeserialize("trace.ndjson")

VARIABLES l,         \* index of the next event
          run,       \* id of the current run (from its reset event)
          skipping   \* the current run was rejected: consume up to the next reset
tvars == <<l, run, skipping, ini, tbl, pass1, sl, colls, fl, fin, xb>>

\* JSON has no sets: the expectation's collections arrive as arrays
ExpOfJson(x) == [sel |-> SeqSet(x.sel), known |-> SeqSet(x.known), mocks |-> SeqSet(x.mocks), force |-> SeqSet(x.force),
                 src |-> SeqSet(x.src), exit |-> x.exit]

TraceInit == l = 1 /\ run = -1 /\ skipping = FALSE /\ SkInit(Xb0)

TraceNext ==
  /\ l <= Len(Trace)
  /\ l' = l + 1
  /\ LET e == Trace[l] IN
     IF e.ev = "reset"
     THEN /\ SkReset(IF e.hasexp THEN XbOf(ExpOfJson(e.exp)) ELSE Xb0)
          /\ run' = e.run /\ skipping' = FALSE
     ELSE IF skipping THEN UNCHANGED <<run, skipping>> /\ UNCHANGED sk
     ELSE IF Holds(Chk(e))
          THEN /\ SkEff(e)
               /\ IF Drift(e) # {} THEN PrintT(<<"DRIFT", ToJson([run |-> run, at |-> l, why |-> Drift(e)])>>) ELSE TRUE
               /\ UNCHANGED <<run, skipping>>
          ELSE /\ PrintT(<<"REJECT", ToJson([run |-> run, at |-> l, why |-> Why(Chk(e)), ev |-> e.ev])>>)
               /\ skipping' = TRUE
               /\ UNCHANGED run /\ UNCHANGED sk

TraceSpec == TraceInit /\ [][TraceNext]_tvars

Consumed == TLCGet("stats").diameter - 1
TraceAccepted == PrintT(<<"CONSUMED", Consumed, Len(Trace)>>) /\ Consumed = Len(Trace)
=============================================================================
