----------------------------- MODULE Discovery -----------------------------
(***************************************************************************)
(* C07 (and the discovery half of C02) -- which declarations of a package  *)
(* are candidates for mocking.                                             *)
(*                                                                         *)
(* A declaration is a record                                               *)
(*   [name, kind, scope, file]                                             *)
(*   scope : "pkg" (package level) | "func" | "lit" | "method"  (declared  *)
(*           inside a function body / function literal / method body)      *)
(*   file  : "go" | "go2" (ordinary compiled files) | "test" (_test.go) |  *)
(*           "tagged" (excluded by a build constraint) |                   *)
(*           "genother" | "genfree" | "genown": compiled files that carry  *)
(*           a generated-code header (another generator's conforming       *)
(*           marker / a free-form DO NOT EDIT comment / mockery's own      *)
(*           marker on a hand-kept file).  The statement excludes only     *)
(*           non-interfaces, function-local types and unconfigured         *)
(*           packages: interfaces in such files are interfaces of the      *)
(*           package like any other.                                       *)
(*                                                                         *)
(* Contract layer:  Class(d) in {"yes","no","free"}.                       *)
(*   "yes"  the property says this is an interface of the package          *)
(*   "no"   the property says it is never mocked (not an interface,        *)
(*          function-local, not part of the package under the build        *)
(*          configuration)                                                 *)
(*   "free" the property statement does not decide (aliases of interfaces, *)
(*          a defined type whose definition is another named interface,    *)
(*          constraint-only interfaces, declarations in _test.go files).   *)
(* Code-shaped layer: the AST walk of internal/node_visitor.go followed by *)
(* the package-scope lookup and filters of internal/parse.go:66-104.       *)
(***************************************************************************)
EXTENDS Naturals, Sequences, FiniteSets

\* embedsLocal .. embedsAlias: interfaces that consist ONLY of embedded interfaces (no method of their own): they are
\* ordinary method-set interfaces (ReadWriter{Reader; Writer}, Named{fmt.Stringer}, CachedRepo[T]{Gen[T]}, ...)
EmbedOnlyKinds == {"embedsLocal", "embedsStd", "embedsMixed", "embedsGeneric", "embedsInst", "embedsAlias"}
YesKinds  == {"iface", "ifaceGrouped", "generic", "generic2", "instDef", "instDef2", "embed", "empty"} \cup EmbedOnlyKinds
FreeKinds == {"instAlias", "namedOver", "aliasOver", "union", "mixed"}
NoKinds   == {"struct", "func", "aliasStruct", "genStruct", "instStruct", "basic"}
Kinds     == YesKinds \cup FreeKinds \cup NoKinds

CompiledFiles == {"go", "go2", "genother", "genfree", "genown"}

\* ------------------------------------------------------------------ contract
Class(d) ==
  IF d.scope # "pkg" THEN "no"                       \* function-local types are never mocked
  ELSE IF d.file = "tagged" THEN "no"                \* not part of the package as built
  ELSE IF d.kind \in NoKinds THEN "no"               \* not an interface
  ELSE IF d.file = "test" THEN "free"
  ELSE IF d.kind \in FreeKinds THEN "free"
  ELSE "yes"

\* the package-level declaration that owns a name (package-level names are unique in Go)
PkgDecl(decls, n) == CHOOSE i \in 1..Len(decls) : decls[i].name = n /\ decls[i].scope = "pkg"
HasPkgDecl(decls, n) == \E i \in 1..Len(decls) : decls[i].name = n /\ decls[i].scope = "pkg"
NameClass(decls, n) == IF HasPkgDecl(decls, n) THEN Class(decls[PkgDecl(decls, n)]) ELSE "no"

\* ------------------------------------------------------------------ code-shaped
\* node_visitor.go:50-55 -- the syntactic form of the right-hand side
AstType(kind) ==
  CASE kind \in {"iface", "ifaceGrouped", "generic", "generic2", "embed", "empty", "union", "mixed"} \cup EmbedOnlyKinds -> "InterfaceType"
    [] kind \in {"instDef", "instAlias", "instStruct"}                     -> "IndexExpr"
    [] kind = "instDef2"                                                   -> "IndexListExpr"
    [] kind \in {"namedOver", "aliasOver", "aliasStruct", "basic"}         -> "Ident"
    [] kind \in {"struct", "genStruct"}                                    -> "StructType"
    [] kind = "func"                                                       -> "FuncType"

IsAliasKind(kind) == kind \in {"instAlias", "aliasOver", "aliasStruct"}
IsIfaceKind(kind) == kind \in YesKinds \cup FreeKinds

\* node_visitor.go:40-43: FuncDecl / FuncLit bodies are not descended into; only compiled files are walked
Visited(d) == d.scope = "pkg" /\ d.file \in CompiledFiles
SyntacticCandidate(d) == Visited(d) /\ AstType(d.kind) \in {"InterfaceType", "IndexExpr", "IndexListExpr"}

\* parse.go:75-96: scope.Lookup (package scope, compiled files only) -> *types.Named -> types.IsInterface
ScopeHas(decls, n) == \E i \in 1..Len(decls) : decls[i].name = n /\ decls[i].scope = "pkg" /\ decls[i].file \in CompiledFiles
ScopeDecl(decls, n) == decls[CHOOSE i \in 1..Len(decls) : decls[i].name = n /\ decls[i].scope = "pkg" /\ decls[i].file \in CompiledFiles]
ImplCandidate(decls, d) ==
  /\ SyntacticCandidate(d)
  /\ ScopeHas(decls, d.name)
  /\ ~IsAliasKind(ScopeDecl(decls, d.name).kind)         \* obj.Type().(*types.Named) fails for *types.Alias
  /\ IsIfaceKind(ScopeDecl(decls, d.name).kind)

\* the candidate list in source order (file order, declaration order), one entry per visited occurrence
RECURSIVE ImplCandidates(_, _)
ImplCandidates(decls, i) ==
  IF i > Len(decls) THEN << >>
  ELSE (IF ImplCandidate(decls, decls[i]) THEN <<decls[i].name>> ELSE << >>) \o ImplCandidates(decls, i + 1)

SeqToSet(s) == {s[i] : i \in 1..Len(s)}
Count(s, x) == Cardinality({i \in 1..Len(s) : s[i] = x})

\* Impl => Contract for discovery: every "yes" name is a candidate exactly once, no "no" name ever is
DiscoveryRefines(decls) ==
  LET c == ImplCandidates(decls, 1) IN
  \A i \in 1..Len(decls) :
    LET n == decls[i].name IN
      /\ NameClass(decls, n) = "yes" => Count(c, n) = 1
      /\ NameClass(decls, n) = "no"  => Count(c, n) = 0
      /\ Count(c, n) <= 1
=============================================================================
