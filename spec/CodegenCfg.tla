----------------------------- MODULE CodegenCfg -----------------------------
(***************************************************************************)
(* C01 -- the configuration half of the product:                           *)
(*   template x documented template-data options x formatter x placement   *)
(*   x go.mod spelling                                                     *)
(* enumerated exhaustively.  Contract: a mock file is "in package" iff it  *)
(* is written into the source directory under the source package's name;   *)
(* then (and only then) the source package is not imported and local types *)
(* are unqualified.  Code-shaped: template_generator.go:160-169 (name and  *)
(* directory comparison) and registry.go addImport (path == dstPkgPath,    *)
(* where dstPkgPath comes from the module line of the nearest go.mod).     *)
(* Every configuration is exported (CFG line) with the contract's expected *)
(* in-package flag and the option key that selects the PRED line of        *)
(* Codegen.tla.                                                            *)
(***************************************************************************)
EXTENDS Naturals, Sequences, FiniteSets, TLC, Json

VARIABLE cfg

Formatters == {"goimports", "gofmt", "noop"}
Placements == {"samepkg",        \* source dir, source package name, non-test file
               "samepkg_test",   \* source dir, source package name, _test.go file (mockery's default)
               "ext_test",       \* source dir, package <src>_test, _test.go file
               "subpkg",         \* sub directory, package mocks
               "subpkg_samename" \* sub directory, but named like the source package
              }
GoMods == {"plain", "quoted", "tab", "comment", "block"}

\* ovr: at which configuration LEVEL the template-data options are written.
\*   none        all at package level (interfaces inherit)
\*   flip-all    package level carries the NEGATED value of every boolean option; every interface overrides it
\*   flip-first  package level as intended; the FIRST interface of the file overrides every option with the negation
\*   flip-rest   package level as intended; every interface BUT the first overrides with the negation
\* so that interfaces sharing one output file see different effective options, and options are never read from the wrong level.
Overrides == {"none", "flip-all", "flip-first", "flip-rest"}
Configs ==
  [tmpl : {"testify"}, unroll : {"unset", "false", "true"}, skipensure : {FALSE}, stub : {FALSE}, resets : {FALSE},
   boilerplate : BOOLEAN, buildtags : BOOLEAN, fmt : Formatters, place : Placements, gomod : GoMods, ovr : Overrides]
  \cup
  [tmpl : {"matryer"}, unroll : {"unset"}, skipensure : BOOLEAN, stub : BOOLEAN, resets : BOOLEAN,
   boilerplate : BOOLEAN, buildtags : BOOLEAN, fmt : Formatters, place : Placements, gomod : GoMods, ovr : Overrides]

(* ---- contract ---- *)
SameDir(pl) == pl \in {"samepkg", "samepkg_test", "ext_test"}
DstPkg(pl)  == CASE pl \in {"samepkg", "samepkg_test", "subpkg_samename"} -> "SRC"   \* the source package's name
                 [] pl = "ext_test" -> "SRC_test"
                 [] pl = "subpkg" -> "mocks"
InPackage(pl) == SameDir(pl) /\ DstPkg(pl) = "SRC"
\* what the module line of go.mod declares, for every valid spelling
DeclaredModule(gm) == "M"

(* ---- code-shaped ---- *)
\* internal/template_generator.go:101-112 since 9261acf: modfile.ParseLax
ReadModule(gm) == "M"
DstDir(pl) == IF SameDir(pl) THEN "M/c" ELSE "M/c/sub"
DstPkgPathImpl(c) == IF ReadModule(c.gomod) = "M" THEN DstDir(c.place) ELSE "?" \o DstDir(c.place)
InPkgImpl(c) == DstPkg(c.place) = "SRC" /\ DstDir(c.place) = "M/c"                    \* :164
SelfImportSkipped(c) == InPkgImpl(c) /\ DstPkgPathImpl(c) = "M/c"                     \* registry.go:127

Init == cfg \in Configs
Next == UNCHANGED cfg
Spec == Init /\ [][Next]_cfg

InPackageIffSameDirAndName == InPkgImpl(cfg) = InPackage(cfg.place)
NoSelfImportWhenInPackage == InPackage(cfg.place) <=> SelfImportSkipped(cfg)
ModuleReadFaithfully == ReadModule(cfg.gomod) = DeclaredModule(cfg.gomod)

\* ---- template-data per level (contract: the most specific level wins, per key) ----
OptKeys(c) == IF c.tmpl = "testify" THEN {"unroll-variadic"} ELSE {"skip-ensure", "stub-impl", "with-resets"}
Intended(c, k) == CASE k = "unroll-variadic" -> c.unroll = "true" [] k = "skip-ensure" -> c.skipensure
                    [] k = "stub-impl" -> c.stub [] k = "with-resets" -> c.resets
Spell(b) == IF b THEN "true" ELSE "false"
\* what is written at package level / at the interface level of the first interface / of the other interfaces
PkgData(c) == [k \in OptKeys(c) |->
                 IF c.ovr = "flip-all" THEN Spell(~Intended(c, k))
                 ELSE IF k = "unroll-variadic" /\ c.ovr = "none" THEN c.unroll            \* unset / false / true as spelled
                 ELSE IF Intended(c, k) THEN "true" ELSE "unset"]
FirstData(c) == [k \in OptKeys(c) |-> CASE c.ovr = "flip-all" -> Spell(Intended(c, k)) [] c.ovr = "flip-first" -> Spell(~Intended(c, k))
                                         [] OTHER -> "unset"]
RestData(c)  == [k \in OptKeys(c) |-> CASE c.ovr = "flip-all" -> Spell(Intended(c, k)) [] c.ovr = "flip-rest" -> Spell(~Intended(c, k))
                                         [] OTHER -> "unset"]
Eff(pkg, own) == IF own # "unset" THEN own = "true" ELSE pkg = "true"
EffOpt(c, which, k) == Eff(PkgData(c)[k], (IF which = "first" THEN FirstData(c) ELSE RestData(c))[k])
Val(c, which, k) == IF k \in OptKeys(c) THEN EffOpt(c, which, k) ELSE FALSE
PredKey(c, which) == [unroll |-> Val(c, which, "unroll-variadic"), skipensure |-> Val(c, which, "skip-ensure"), stub |-> Val(c, which, "stub-impl")]
\* flip-all must leave every interface with the intended options
OverridesWin == cfg.ovr \in {"none", "flip-all"} => \A k \in OptKeys(cfg) : EffOpt(cfg, "first", k) = Intended(cfg, k) /\ EffOpt(cfg, "rest", k) = Intended(cfg, k)

Expect(c) == [inpkg |-> InPackage(c.place), dstpkg |-> DstPkg(c.place), samedir |-> SameDir(c.place),
              pkgdata |-> PkgData(c), firstdata |-> FirstData(c), restdata |-> RestData(c),
              predkey |-> PredKey(c, "first"), predkey_rest |-> PredKey(c, "rest"),
              resets_first |-> Val(c, "first", "with-resets"), resets_rest |-> Val(c, "rest", "with-resets")]
Emit == PrintT(<<"CFG", ToJson([cfg |-> cfg, expect |-> Expect(cfg)])>>)
=============================================================================
