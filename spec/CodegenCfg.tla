----------------------------- MODULE CodegenCfg -----------------------------
(***************************************************************************)
(* C01 -- the configuration half of the product:                           *)
(*   template x documented template-data options x formatter x placement   *)
(*   x go.mod spelling                                                     *)
(* enumerated exhaustively.  Contract: a mock file is "in package" iff it  *)
(* is written into the source directory under the source package's name;   *)
(* then (and only then) the source package is not imported and local types *)
(* are unqualified.  Code-shaped: template_generator.go:160-169 (name and  *)
(* directory comparison) and registry.go addImport (path == dstPkgPath,    *)
(* where dstPkgPath comes from the module line of the nearest go.mod).     *)
(* Every configuration is exported (CFG line) with the contract's expected *)
(* in-package flag and the option key that selects the PRED line of        *)
(* Codegen.tla.                                                            *)
(***************************************************************************)
EXTENDS Naturals, Sequences, FiniteSets, TLC, Json

VARIABLE cfg

Formatters == {"goimports", "gofmt", "noop"}
Placements == {"samepkg",        \* source dir, source package name, non-test file
               "samepkg_test",   \* source dir, source package name, _test.go file (mockery's default)
               "ext_test",       \* source dir, package <src>_test, _test.go file
               "subpkg",         \* sub directory, package mocks
               "subpkg_samename" \* sub directory, but named like the source package
              }
GoMods == {"plain", "quoted", "tab", "comment", "block"}

Configs ==
  [tmpl : {"testify"}, unroll : {"unset", "false", "true"}, skipensure : {FALSE}, stub : {FALSE}, resets : {FALSE},
   boilerplate : BOOLEAN, buildtags : BOOLEAN, fmt : Formatters, place : Placements, gomod : GoMods]
  \cup
  [tmpl : {"matryer"}, unroll : {"unset"}, skipensure : BOOLEAN, stub : BOOLEAN, resets : BOOLEAN,
   boilerplate : BOOLEAN, buildtags : BOOLEAN, fmt : Formatters, place : Placements, gomod : GoMods]

(* ---- contract ---- *)
SameDir(pl) == pl \in {"samepkg", "samepkg_test", "ext_test"}
DstPkg(pl)  == CASE pl \in {"samepkg", "samepkg_test", "subpkg_samename"} -> "SRC"   \* the source package's name
                 [] pl = "ext_test" -> "SRC_test"
                 [] pl = "subpkg" -> "mocks"
InPackage(pl) == SameDir(pl) /\ DstPkg(pl) = "SRC"
\* what the module line of go.mod declares, for every valid spelling
DeclaredModule(gm) == "M"

(* ---- code-shaped ---- *)
\* internal/template_generator.go:101-112 since 9261acf: modfile.ParseLax
ReadModule(gm) == "M"
DstDir(pl) == IF SameDir(pl) THEN "M/c" ELSE "M/c/sub"
DstPkgPathImpl(c) == IF ReadModule(c.gomod) = "M" THEN DstDir(c.place) ELSE "?" \o DstDir(c.place)
InPkgImpl(c) == DstPkg(c.place) = "SRC" /\ DstDir(c.place) = "M/c"                    \* :164
SelfImportSkipped(c) == InPkgImpl(c) /\ DstPkgPathImpl(c) = "M/c"                     \* registry.go:127

Init == cfg \in Configs
Next == UNCHANGED cfg
Spec == Init /\ [][Next]_cfg

InPackageIffSameDirAndName == InPkgImpl(cfg) = InPackage(cfg.place)
NoSelfImportWhenInPackage == InPackage(cfg.place) <=> SelfImportSkipped(cfg)
ModuleReadFaithfully == ReadModule(cfg.gomod) = DeclaredModule(cfg.gomod)

Expect(c) == [inpkg |-> InPackage(c.place), dstpkg |-> DstPkg(c.place), samedir |-> SameDir(c.place),
              predkey |-> [unroll |-> c.unroll = "true", skipensure |-> c.skipensure, stub |-> c.stub]]
Emit == PrintT(<<"CFG", ToJson([cfg |-> cfg, expect |-> Expect(cfg)])>>)
=============================================================================
