----------------------------- MODULE FuncLibMC -----------------------------
(* Model constants for FuncLib.tla: the argument tuples TLC enumerates per tier.             *)
(* Alphabets are chosen per family so that byte- and rune-indexing, case classes, cutsets,   *)
(* separators at boundaries, negative/zero counts and zero divisors are all distinguishable. *)
(* Families are predicates over (fn, args) so that TLC enumerates them lazily; nothing here  *)
(* that is large may be a zero-arity constant definition (TLC evaluates those eagerly).      *)
EXTENDS FuncLib

CONSTANT Tier      \* "quick" | "thorough" | "witness"

StrsUpTo(A, n) == UNION {[1..k -> A] : k \in 0..n}
Is(f, a) == fn = f /\ args = a
One(F, X) == \E f \in F, x \in X : Is(f, <<S(x)>>)
Two(F, X, Y) == \E f \in F, x \in X, y \in Y : Is(f, <<S(x), S(y)>>)

SingleFns == {"exported", "firstIsLower", "firstUpper", "firstLower", "lower", "upper",
              "camelcase", "snakecase", "kebabcase", "trimSpace"}
PairFns == {"contains", "hasPrefix", "hasSuffix", "trimPrefix", "trimSuffix", "trim", "trimLeft", "trimRight",
            "split", "splitAfter"}
ArithFns == {"add", "sub", "mul", "div", "mod", "min"}

A1 == {"a", "b", "A", "B", "i", "d", "I", "D", "ee", "EE", "zh", "1", "_", " ", "tab", "/", ".", "-", "xff"}
UrlLetters == {"u", "r", "l", "U", "R", "L"}
\* letters whose upper/lower case has another UTF-8 length (2->1, 2->3, 3->2, 3->1), with their images
LenChange == {"dli", "ls", "tua", "TUA", "ast", "AST", "kel", "dz", "Dz", "DZ", "cm"}
LC3 == LenChange \cup {"a", "A", "I", "k", "d", "xff"}
Singles(n) == \/ One(SingleFns, StrsUpTo(A1, n)) \/ One({"exported"}, [1..3 -> UrlLetters])
              \/ One(SingleFns, StrsUpTo(A1 \cup LenChange, 2))
              \/ (n >= 3 /\ One(SingleFns, StrsUpTo(LC3, 3)))
              \/ One({"exported", "firstUpper", "firstLower", "firstIsLower"}, {<<x, y, z>> : x \in LenChange, y \in {"d", "s", "ee", "cm"}, z \in {"h", "xff"}})

Pairs(A, la, ls) == Two(PairFns, StrsUpTo(A, la), StrsUpTo(A, ls))

News == {<<>>, <<"b">>, <<"xff">>, <<"a", "a">>}
SplitN(A, lsep, Ns, ls) == \E sep \in StrsUpTo(A, lsep), n \in Ns, s \in StrsUpTo(A, ls) :
                             Is("splitAfterN", <<S(sep), I(n), S(s)>>)
Repl(A, lold, Ns, ls) == \E old \in StrsUpTo(A, lold), new \in News, n \in Ns, s \in StrsUpTo(A, ls) :
                           Is("replace", <<S(old), S(new), I(n), S(s)>>)
ReplAll(A, lold, ls) == \E old \in StrsUpTo(A, lold), new \in News, s \in StrsUpTo(A, ls) :
                          Is("replaceAll", <<S(old), S(new), S(s)>>)
Joins(E) == \E sep \in {<<>>, <<"-">>, <<"xff">>, <<"a", "ee">>}, el \in UNION {[1..k -> E] : k \in 0..3} :
              Is("join", <<S(sep), L(el)>>)

IntSeqs(Ints, k) == UNION {[1..j -> Ints] : j \in 1..k}
Arith(Ints) == \/ \E f \in ArithFns, xs \in IntSeqs(Ints, 3) : Is(f, [i \in 1..Len(xs) |-> I(xs[i])])
               \/ \E f \in {"incr", "decr"}, x \in Ints : Is(f, <<I(x)>>)
               \/ Is("min", << >>)
Floats(Qs) == \E f \in {"ceil", "floor", "round"}, q \in Qs : Is(f, <<Q(q)>>)

Paths(n) == One({"base", "clean", "dir"}, StrsUpTo({"a", "/", ".", "ee", "xff"}, n))
Metas(n) == One({"quoteMeta"}, StrsUpTo({"a", ".", "*", "[", "bs", "ee", "xff"}, n))
Matches(n) == Two({"matchString"}, StrsUpTo({"a", ".", "*", "(", "ee", "xff"}, n), StrsUpTo({"a", "ee", "xff"}, 2))
Envs(n) == One({"expandEnv"}, StrsUpTo({"$", "{", "}", "V", "a", "ee"}, n)) \/ One({"getenv"}, StrsUpTo({"V", "a", "$", "ee"}, 2))
\* ENVIRONMENT dimension: values that themselves contain references ($X, ${X}, $$, $5), a self-reference, a
\* 2-cycle and references to unset names.  os.ExpandEnv substitutes ONCE; the environment travels with the case
\* as an extra, implicit argument (the harness sets it for the process, the driver computes the namesake under it).
Env1 == [V |-> <<"p", "a", "$", "$", "w">>, W |-> <<"$", "V">>, A |-> <<"x", "$", "A">>,
         B |-> <<"$", "{", "C", "}">>, C |-> <<"$", "B">>, D |-> <<"$", "5", "ee">>]
EnvRefs(n) == \/ \E x \in StrsUpTo({"$", "{", "}", "V", "W", "A", "B", "D", "U"}, n) : Is("expandEnv", <<S(x), ENV(Env1)>>)
              \/ \E x \in {<<"V">>, <<"W">>, <<"A">>, <<"B">>, <<"D">>, <<"U">>, <<"$", "A">>} : Is("getenv", <<S(x), ENV(Env1)>>)
\* large magnitudes, named: every single step of the left fold may be exact while a reordered evaluation overflows
Big == {"3", "-3", "1000", "2147483648", "4294967296", "-4294967296", "4000000000", "9000000000000000000",
        "9223372036854775807", "-9223372036854775808"}
Big4 == {"1000", "4294967296", "4000000000", "9000000000000000000"}
BigArith(k) == \/ \E f \in ArithFns, xs \in UNION {[1..j -> Big] : j \in 2..k} : Is(f, [i \in 1..Len(xs) |-> N(xs[i])])
               \/ \E f \in ArithFns, xs \in [1..4 -> Big4] : Is(f, [i \in 1..4 |-> N(xs[i])])
               \/ \E f \in {"incr", "decr"}, x \in Big : Is(f, <<N(x)>>)
Files == \E p \in {"", "file", "dir", "missing"} : Is("readFile", <<P(p)>>)
Rand == Is("randInt", << >>)

A2q == {"a", "b", "ee", "xff"}
A2t == {"a", "b", "A", "ee", "xff"}
A3 == {"a", "ee", "xff"}

CaseChoice ==
  CASE Tier = "quick" ->
         \/ Singles(2) \/ Pairs(A2q, 2, 2) \/ Pairs({"a", "ee"}, 1, 3) \/ Pairs({"a", "A"}, 1, 2)
         \/ Pairs({"I", "dli", "kel", "k", "TUA"}, 1, 2)
         \/ SplitN(A3, 1, -2..2, 3) \/ Repl({"a", "ee"}, 1, -2..2, 3) \/ ReplAll({"a", "ee"}, 1, 3)
         \/ Joins({<<>>, <<"a">>, <<"ee">>})
         \/ Arith(-3..3) \/ Floats(-10..10)
         \/ Paths(3) \/ Metas(2) \/ Matches(2) \/ Envs(3) \/ EnvRefs(3) \/ BigArith(3) \/ Files \/ Rand
    [] Tier = "thorough" ->
         \/ Singles(3) \/ One(SingleFns, [1..4 -> {"a", "A", "ee", "_", "xff"}])
         \/ Pairs(A2t, 2, 3) \/ Pairs(A3, 3, 3) \/ Pairs({"a", "A", "EE"}, 2, 3)
         \/ Pairs({"I", "dli", "kel", "k", "TUA", "tua"}, 2, 3)
         \/ SplitN(A2q, 2, -2..3, 3) \/ Repl({"a", "b", "ee"}, 2, -2..3, 3) \/ ReplAll({"a", "b", "ee"}, 2, 3)
         \/ Joins({<<>>, <<"a">>, <<"ee">>, <<"xff", "b">>})
         \/ Arith(-4..4) \/ Floats(-18..18)
         \/ (\E f \in ArithFns, xs \in [1..4 -> -2..2] : Is(f, [i \in 1..4 |-> I(xs[i])]))
         \/ Paths(4) \/ Metas(3) \/ Matches(3) \/ Envs(4) \/ EnvRefs(4) \/ BigArith(3) \/ Files \/ Rand
    [] Tier = "witness2" ->
         \* negated witness for the length-changing letters (seeded C16-r3m1 code shape)
         One({"exported"}, StrsUpTo({"a", "dli", "tua", "ast", "ee"}, 2))
    [] Tier = "witness" ->
         \* negated witness: with the pre-d879be0 code shape TLC must find ImplMatchesContract violated
         \/ One({"exported"}, StrsUpTo({"a", "ee", "xff"}, 2))
         \/ One({"firstIsLower"}, StrsUpTo({"a", "ee", "zh", "xff"}, 1))

MCInit == InitWith(CaseChoice)
MCSpec == MCInit /\ [][Next]_vars
=============================================================================
