----------------------------- MODULE CodegenSim -----------------------------
(***************************************************************************)
(* Thorough tier of C01 / C02 / C14: programs beyond the exhaustive bounds *)
(* of CodegenMC.tla -- type depth 3, up to NMethods methods with up to 3    *)
(* parameters and 2 results each, several colliding packages in one        *)
(* interface -- drawn by TLC in simulation mode (-simulate, -seed).        *)
(*                                                                         *)
(* A behaviour BUILDS one interface step by step: pick a leaf, wrap it in  *)
(* type constructors, commit it as a parameter / variadic parameter /      *)
(* result, close the method, ...; the finished program is exported (SIM    *)
(* line) and then run through Codegen.tla like every enumerated program    *)
(* (the harness writes the drawn programs into a generated MC module), so  *)
(* expectation and predicted footprint still come from the specification.  *)
(* Only ordinary identifiers are used: the adversarial identifier classes  *)
(* are covered exhaustively by the Ident family.                           *)
(***************************************************************************)
EXTENDS Sig, Json

CONSTANTS NMethods, MaxDepth

VARIABLES gen,     \* the interface has a type parameter T any
          meths,   \* finished methods
          ps, rs,  \* parameters / results of the method under construction
          named,   \* this method names its parameters and results
          va,      \* its last parameter is variadic
          t, d,    \* type under construction and its depth ("none" when no type is open)
          phase    \* "params" | "results" | "done"
svars == <<gen, meths, ps, rs, named, va, t, d, phase>>

None == [k |-> "none"]
SimLeaves == {B("int"), B("string"), B("error"), B("any"), B("bool"), N("SRC", "LT"), N("SRC", "LI"), N("SRC", "LE"),
              N("FX", "T"), N("FY", "T"), N("FZ", "T"), N("FX", "E"), N("FV", "T"), N("FS", "T"),
              N("Sio", "Reader"), N("Scontext", "Context"), N("Stime", "Duration"), Inst("FX", "G", <<N("FY", "T")>>)}
Wraps(e) == {Ptr(e), Slice(e), Arr(e), Chan("both", e), Chan("send", e), Chan("recv", e), Map(B("string"), e),
             Fn(<<V("", e)>>, <<V("", e)>>, FALSE), Fn(<<V("", B("int")), V("", e)>>, << >>, TRUE),
             Struct(<<Fld("F", e, "", FALSE)>>), Iface(<<Meth("M", <<V("", e)>>, << >>, FALSE)>>, << >>),
             Inst("SRC", "LG", <<e>>), Inst("FX", "G", <<e>>)}
MNamesSeq == <<"M", "N", "V", "W", "X">>
PNames == <<"a", "b", "c">>
RNamesSeq == <<"x", "y">>

Init == /\ gen \in BOOLEAN /\ meths = << >> /\ ps = << >> /\ rs = << >> /\ named \in BOOLEAN /\ va = FALSE
        /\ t = None /\ d = 0 /\ phase = "params"

PickLeaf == /\ phase \in {"params", "results"} /\ t = None
            /\ \/ \E l \in SimLeaves : t' = l
               \/ gen /\ t' = TP("T")
            /\ d' = 0 /\ UNCHANGED <<gen, meths, ps, rs, named, va, phase>>
Wrap == /\ t # None /\ d < MaxDepth
        /\ \E w \in Wraps(t) : t' = w
        /\ d' = d + 1 /\ UNCHANGED <<gen, meths, ps, rs, named, va, phase>>
CommitParam(variadic) ==
        /\ phase = "params" /\ t # None /\ Len(ps) < 3 /\ ~va
        /\ ps' = Append(ps, V(IF named THEN PNames[Len(ps) + 1] ELSE "", t)) /\ va' = variadic
        /\ t' = None /\ d' = 0 /\ UNCHANGED <<gen, meths, rs, named, phase>>
ToResults == /\ phase = "params" /\ t = None /\ phase' = "results" /\ UNCHANGED <<gen, meths, ps, rs, named, va, t, d>>
CommitResult ==
        /\ phase = "results" /\ t # None /\ Len(rs) < 2
        /\ rs' = Append(rs, V(IF named THEN RNamesSeq[Len(rs) + 1] ELSE "", t))
        /\ t' = None /\ d' = 0 /\ UNCHANGED <<gen, meths, ps, named, va, phase>>
CloseMethod ==
        /\ phase = "results" /\ t = None
        /\ meths' = Append(meths, Meth(MNamesSeq[Len(meths) + 1], ps, rs, va))
        /\ ps' = << >> /\ rs' = << >> /\ va' = FALSE /\ named' \in BOOLEAN
        /\ phase' = IF Len(meths) + 1 = NMethods THEN "done" ELSE "params"
        /\ UNCHANGED <<gen, t, d>>

Next == PickLeaf \/ Wrap \/ CommitParam(TRUE) \/ CommitParam(FALSE) \/ ToResults \/ CommitResult \/ CloseMethod
Spec == Init /\ [][Next]_svars

\* every drawn interface is legal Go by construction; the generated methods mention at most what Sig.tla can render
Emit == (phase = "done") => PrintT(<<"SIM", ToJson([gen |-> gen, ms |-> meths])>>)
Stop == phase # "done"
=============================================================================
