------------------------ MODULE ConfigTreeContract ------------------------
(***************************************************************************)
(* C08, contract layer: hierarchical resolution of mockery's configuration *)
(*                                                                         *)
(* A configuration is a tree of LEVELS                                      *)
(*      env  <  root (the config file's top level)  <  flag                *)
(*           <  package `config`  <  interface `config`  <  `configs[i]`   *)
(* (env / flag are the two extra SOURCES of the top level: "defaults <     *)
(* MOCKERY_* < config file < flags").  Every level may set every           *)
(* parameter.  The property: the effective value of a parameter for a mock *)
(* is the value at the MOST SPECIFIC level of the mock's own chain that     *)
(* sets it, else the default; map-valued parameters are merged key by key   *)
(* (nested keys too) with the same rule.  Nothing is ever taken from a      *)
(* level that is not on the mock's chain (no leaks into siblings).          *)
(*                                                                         *)
(* This module is pure (no variables): the operators below are the oracle   *)
(* used (a) as the invariant the code-shaped model ConfigTree.tla is        *)
(* checked against, (b) to compute the expected outcome exported with       *)
(* every replayed world (ConfigTreeWorld.tla), (c) to judge hook traces     *)
(* recorded from the real binary (ConfigTreeTrace.tla).                     *)
(***************************************************************************)
EXTENDS Naturals, Sequences, FiniteSets, TLC

CONSTANTS
  NodeRecs,   \* set of [id, parent, kind, pkg, letter]; kind \in {"env","root","flag","pkg","iface","entry"}
  Decl,       \* [Go package -> set of interface letters declared there]
  Tagged,     \* [Go package -> [letter -> build tag]]: declarations in a file with a //go:build line (a marker names the tag)
  Subs        \* [configured package -> set of Go packages nested below it in the directory tree]

NodeIds    == {r.id : r \in NodeRecs}
Rec(n)     == CHOOSE r \in NodeRecs : r.id = n
Parent(n)  == Rec(n).parent
KindOf(n)  == Rec(n).kind
Configured == {r.id : r \in {x \in NodeRecs : x.kind = "pkg"}}
IfaceNodes(p)  == {r \in NodeRecs : r.kind = "iface" /\ r.pkg = p}
EntryNodes(i)  == {r \in NodeRecs : r.kind = "entry" /\ r.parent = i}
ListedLetters(p) == {r.letter : r \in IfaceNodes(p)}

\* the chain of a node, most specific level first (tabulated once: TLC caches constant definitions)
RECURSIVE ChainRec(_)
ChainRec(n) == IF n = "" THEN << >> ELSE <<n>> \o ChainRec(Parent(n))
ChainTbl == [n \in NodeIds |-> ChainRec(n)]
Chain(n) == ChainTbl[n]
OnChain(n) == {Chain(n)[i] : i \in 1..Len(Chain(n))}

-----------------------------------------------------------------------------
(* Parameters.  `cfg` is [node -> [parameter -> value]]; a parameter that a level does not
   set is simply not in the domain. *)

PerMock    == {"dir", "filename", "pkgname", "structname", "template-data", "replace-type"}
PerFile    == {"template", "template-schema", "require-template-schema-exists", "formatter", "force-file-write"}
PerPackage == {"all", "include-interface-regex", "exclude-interface-regex", "recursive", "exclude-subpkg-regex"}
TopOnly    == {"log-level", "build-tags"}
MapParams  == {"template-data", "replace-type"}

DEFAULT == "<default>"      \* templated defaults (dir, filename, pkgname, structname, template-schema) stay symbolic
NOREGEX == {}               \* a regex is abstracted to the set of interface letters it matches; unset matches nothing
EmptyMap == [t |-> "m", kv |-> << >>]

DefaultOf(p) ==
  CASE p = "template" -> "testify"
    [] p = "formatter" -> "goimports"
    [] p = "log-level" -> "info"
    [] p \in {"force-file-write", "all", "recursive"} -> FALSE
    [] p = "require-template-schema-exists" -> TRUE
    [] p \in {"include-interface-regex", "exclude-interface-regex"} -> NOREGEX
    [] p = "exclude-subpkg-regex" -> << >>
    [] p \in MapParams -> EmptyMap
    [] OTHER -> DEFAULT

IsSet(cfg, n, p) == n \in DOMAIN cfg /\ p \in DOMAIN cfg[n]

\* positions on the chain of n (1 = most specific) at which p is set
Hits(cfg, p, n) == {i \in 1..Len(Chain(n)) : IsSet(cfg, Chain(n)[i], p)}
MinOf(S) == CHOOSE x \in S : \A y \in S : x <= y

\* THE CONTRACT for every non-map parameter (scalars, booleans, string slices: a more specific
\* level replaces the whole value)
EffScalar(cfg, p, n) ==
  IF Hits(cfg, p, n) = {} THEN DefaultOf(p) ELSE cfg[Chain(n)[MinOf(Hits(cfg, p, n))]][p]

\* the level the effective value comes from ("" = default): used for diagnostics only
SourceOf(cfg, p, n) == IF Hits(cfg, p, n) = {} THEN "" ELSE Chain(n)[MinOf(Hits(cfg, p, n))]

\* Map values are tagged trees: [t |-> "s", v |-> scalar] | [t |-> "m", kv |-> [key -> tree]].
\* Key-wise merge, the more specific operand wins, nested maps merged recursively.
RECURSIVE MergeVal(_, _)
MergeVal(s, g) ==
  IF s.t = "m" /\ g.t = "m"
  THEN [t |-> "m",
        kv |-> [k \in DOMAIN s.kv \cup DOMAIN g.kv |->
                  IF k \in DOMAIN s.kv
                  THEN IF k \in DOMAIN g.kv THEN MergeVal(s.kv[k], g.kv[k]) ELSE s.kv[k]
                  ELSE g.kv[k]]]
  ELSE s

RECURSIVE EffMapFrom(_, _, _, _)
EffMapFrom(cfg, p, ch, i) ==
  IF i > Len(ch) THEN EmptyMap
  ELSE IF IsSet(cfg, ch[i], p) THEN MergeVal(cfg[ch[i]][p], EffMapFrom(cfg, p, ch, i + 1))
       ELSE EffMapFrom(cfg, p, ch, i + 1)

\* THE CONTRACT for map-valued parameters
EffMap(cfg, p, n) == EffMapFrom(cfg, p, Chain(n), 1)

Eff(cfg, p, n) == IF p \in MapParams THEN EffMap(cfg, p, n) ELSE EffScalar(cfg, p, n)

\* all scalar leaves of a tagged tree (used by NoLeak: markers name the level that wrote them)
RECURSIVE Leaves(_)
Leaves(v) == IF v.t = "s" THEN {v.v} ELSE UNION {Leaves(v.kv[k]) : k \in DOMAIN v.kv}

-----------------------------------------------------------------------------
(* Which interfaces become mocks (per-package parameters), as documented: `all`, else listed,
   else include-regex minus exclude-regex.  Regexes are abstracted to the set of interface
   letters they match (the harness concretises a set {A,D} as ^(A|D) and every interface name
   starts with its letter). *)
Selected(cfg, p, L, listed) ==
  LET inc == EffScalar(cfg, "include-interface-regex", p)
      exc == EffScalar(cfg, "exclude-interface-regex", p)
  IN \/ EffScalar(cfg, "all", p)
     \/ listed
     \/ (L \in inc /\ L \notin exc)

\* sub-package s of the configured package p is discovered iff p is (effectively) recursive and
\* the effective exclusion list of p does not match s (lists are abstracted to package tags)
ExclList(cfg, p) == EffScalar(cfg, "exclude-subpkg-regex", p)
Excluded(cfg, p, s) == \E i \in 1..Len(ExclList(cfg, p)) : ExclList(cfg, p)[i] = s
Discovered(cfg, p, s) == EffScalar(cfg, "recursive", p) /\ ~Excluded(cfg, p, s)

\* declarations visible under the effective build-tags (a top-level parameter: env < file)
DeclNow(cfg, g) == {L \in Decl[g] : L \notin DOMAIN Tagged[g] \/ Tagged[g][L] = EffScalar(cfg, "build-tags", "flag")}

\* A mock: source package, interface letter, and the most specific level of its chain (`from`).
\*   listed interface with configs entries  -> one mock per entry
\*   listed interface without entries        -> one mock, from the interface level
\*   unlisted interface                      -> one mock, from the package level
\*   interface in a discovered sub-package   -> one mock, from the recursive ancestor's package level
ConfiguredMocks(cfg, p) ==
  UNION { IF L \in ListedLetters(p)
          THEN LET i == CHOOSE r \in IfaceNodes(p) : r.letter = L
               IN IF EntryNodes(i.id) = {}
                  THEN {[pkg |-> p, letter |-> L, from |-> i.id, how |-> "iface"]}
                  ELSE {[pkg |-> p, letter |-> L, from |-> e.id, how |-> "entry"] : e \in EntryNodes(i.id)}
          ELSE IF Selected(cfg, p, L, FALSE)
               THEN {[pkg |-> p, letter |-> L, from |-> p, how |-> "unlisted"]}
               ELSE {}
        : L \in DeclNow(cfg, p) }

\* Subs[p] holds every Go package below p in the directory tree, also those below a nested configured package.
\* A package that is not configured itself is configured as its NEAREST configured recursive ancestor that discovers it.
Candidates(cfg, s) == {p \in Configured : s \in Subs[p] /\ Discovered(cfg, p, s)}
NearestOf(cfg, s) == CHOOSE p \in Candidates(cfg, s) : \A q \in Candidates(cfg, s) : q = p \/ p \in Subs[q]
DiscoveredBy(cfg, p, s) == Candidates(cfg, s) # {} /\ NearestOf(cfg, s) = p

DiscoveredMocks(cfg, p) ==
  UNION { IF DiscoveredBy(cfg, p, s)
          THEN {[pkg |-> s, letter |-> L, from |-> p, how |-> "subpkg"] : L \in {x \in DeclNow(cfg, s) : Selected(cfg, p, x, FALSE)}}
          ELSE {}
        : s \in Subs[p] \ Configured }

Mocks(cfg) == UNION {ConfiguredMocks(cfg, p) \cup DiscoveredMocks(cfg, p) : p \in Configured}

\* data handed to the template at FILE level: the package level's effective map
FileData(cfg, m) == EffMap(cfg, "template-data", IF m.how = "subpkg" THEN m.from ELSE m.pkg)

-----------------------------------------------------------------------------
(* NoLeak, stated on any table `val` of resolved values whose scalar leaves are MARKERS naming
   the level that wrote them: whatever a node ends up with was written on its own chain. *)
NoLeakScalar(val, n) == val = "" \/ val \in OnChain(n) \/ val \notin NodeIds
NoLeakMap(val, n) == \A x \in Leaves(val) : NoLeakScalar(x, n)
=============================================================================
