---------------------------- MODULE SigDiscovery ----------------------------
(***************************************************************************)
(* C02 -- "an interface is never mocked twice in one output file" and the  *)
(* discovery half of "the generated mock implements the source interface": *)
(* which declarations of a source file are candidates.                     *)
(*                                                                         *)
(* A file is a short sequence of type declarations, each at package level  *)
(* or inside a function body, of several kinds, over two names (so that a  *)
(* function-local declaration can shadow a package-level interface).       *)
(* CONTRACT: the candidates are exactly the package-level declarations     *)
(* whose type is an interface, each exactly once.                          *)
(* CODE-SHAPED (internal/node_visitor.go + internal/parse.go:66-104): walk *)
(* the AST, record every TypeSpec whose type expression is an interface    *)
(* literal or an index expression, not descending into function bodies     *)
(* (since c61ee92), then look each recorded NAME up in the package scope.  *)
(***************************************************************************)
EXTENDS Naturals, Sequences, FiniteSets, TLC, Json

CONSTANTS MaxDecls
VARIABLE file

DNames == {"I", "X"}
Levels == {"pkg", "func", "funclit"}
\* kind of the declared type
Kinds  == {"iface",      \* type N interface{ M() }
           "inst",       \* type N G[int]        (G a generic interface)
           "struct",     \* type N struct{}
           "alias",      \* type N = interface{ M() }
           "instStruct"} \* type N S[int]        (S a generic struct: index expression, not an interface)
Decls == [n : DNames, lvl : Levels, k : Kinds]

\* legal Go: at most one package-level declaration per name (function-local ones live in their own function)
Legal(f) == \A i, j \in 1..Len(f) : (i # j /\ f[i].lvl = "pkg" /\ f[j].lvl = "pkg") => f[i].n # f[j].n
Files == {f \in UNION {[1..k -> Decls] : k \in 1..MaxDecls} : Legal(f)}

IsIfaceKind(k) == k \in {"iface", "inst"}
PkgDecl(f, n) == IF \E i \in 1..Len(f) : f[i].lvl = "pkg" /\ f[i].n = n
                 THEN f[CHOOSE i \in 1..Len(f) : f[i].lvl = "pkg" /\ f[i].n = n] ELSE [n |-> n, lvl |-> "none", k |-> "none"]

(* ---- contract ---- *)
\* how many mocks of name n a run over this file (all: true) produces
ExpectedCount(f, n) == IF PkgDecl(f, n).lvl = "pkg" /\ IsIfaceKind(PkgDecl(f, n).k) THEN 1 ELSE 0

(* ---- code-shaped ---- *)
\* node_visitor.go: TypeSpecs recorded by the walk (function bodies are not entered)
Recorded(f) == SelectSeq(f, LAMBDA d : d.lvl = "pkg" /\ d.k \in {"iface", "inst", "instStruct"})
\* parse.go: each recorded name looked up in package scope; must be a *types.Named interface
ImplCount(f, n) == Len(SelectSeq(Recorded(f), LAMBDA d : d.n = n /\ PkgDecl(f, n).lvl = "pkg" /\ IsIfaceKind(PkgDecl(f, n).k)))

Init == file \in Files
Next == UNCHANGED file
Spec == Init /\ [][Next]_file

ImplMatchesContract == \A n \in DNames : ImplCount(file, n) = ExpectedCount(file, n)
NeverTwice == \A n \in DNames : ImplCount(file, n) <= 1

Emit == PrintT(<<"DISC", ToJson([file |-> file, expect |-> [n \in DNames |-> ExpectedCount(file, n)]])>>)
=============================================================================
