-------------------------------- MODULE Sig --------------------------------
(***************************************************************************)
(* C01 / C02 / C14 -- the shape space of Go interfaces handed to mockery.  *)
(*                                                                         *)
(* Bounded Go type terms (records, built by the constructor operators      *)
(* below), signatures, interface declarations, a fixed library of helper   *)
(* packages (foreign module packages whose names collide, stdlib), and the *)
(* CONTRACT-level notions every check of the family uses:                  *)
(*   RefPkgs(t)      packages a rendered type refers to                    *)
(*   BareIdents(t)   identifiers a rendered type resolves in file scope    *)
(*   MethodSet(..)   full method set of an interface through embedding and *)
(*                   instantiation (C02, C14 "each method exactly once")   *)
(* TLA+ cannot type-check Go: these operators enumerate and classify; the  *)
(* Go toolchain is the oracle on every enumerated program.                 *)
(***************************************************************************)
EXTENDS Naturals, Sequences, FiniteSets, TLC

Range(f) == {f[x] : x \in DOMAIN f}
SeqToSet(s) == {s[i] : i \in 1..Len(s)}

RECURSIVE Flatten(_)
Flatten(ss) == IF ss = << >> THEN << >> ELSE Head(ss) \o Flatten(Tail(ss))

RECURSIVE UnionSeq(_)
UnionSeq(ss) == IF ss = << >> THEN {} ELSE Head(ss) \cup UnionSeq(Tail(ss))

(* ------------------------------------------------------------------------ *)
(* Packages.  Abstract ids; (path, name) is in the concretisation table of   *)
(* lib/codegen_worlds.py.  Names collide on purpose.                         *)
ForeignPkgs == {"FX", "FY", "FZ", "FV", "FM", "FS", "FC", "FD"}
StdPkgs     == {"Sio", "Scontext", "Stime", "Sfmt", "Ssync", "Sunsafe"}
\* "SRC" is the package under test (its *name* is part of the program),
\* "TM" is github.com/stretchr/testify/mock (named by the testify template itself)

PkgName(p, srcname) ==
  CASE p = "SRC" -> srcname
    [] p = "FX" -> "io"          \* example.com/w/x/io
    [] p = "FY" -> "io"          \* example.com/w/y/io
    [] p = "FZ" -> "io0"         \* example.com/w/z/io0      literally named like the first alias
    [] p = "FV" -> "quux"        \* example.com/w/q/v2       name # last path element
    [] p = "FM" -> "mock"        \* example.com/w/h/mock     collides with the testify template's import
    [] p = "FS" -> "sync"        \* example.com/w/h/sync     collides with the matryer template's import
    [] p = "FC" -> "constraints" \* example.com/w/h/constraints
    [] p = "FD" -> "dash"        \* example.com/w/gopkg.in/go-dash.v3   dots, dash, version suffix: name is not the path base
    [] p = "Sio" -> "io" [] p = "Scontext" -> "context" [] p = "Stime" -> "time"
    [] p = "Sfmt" -> "fmt" [] p = "Ssync" -> "sync" [] p = "Sunsafe" -> "unsafe"
    [] p = "TM" -> "mock"

(* ------------------------------------------------------------------------ *)
(* Type terms                                                               *)
B(n)            == [k |-> "basic", n |-> n]      \* incl. the predeclared error and any
Unsafe          == [k |-> "unsafe"]              \* unsafe.Pointer
N(p, n)         == [k |-> "named", p |-> p, n |-> n]
Inst(p, n, as)  == [k |-> "inst", p |-> p, n |-> n, as |-> as]
TP(n)           == [k |-> "tp", n |-> n]
Ptr(e)          == [k |-> "ptr", e |-> e]
Slice(e)        == [k |-> "slice", e |-> e]
Arr(e)          == [k |-> "array", e |-> e]      \* [3]e
Chan(d, e)      == [k |-> "chan", d |-> d, e |-> e]   \* d in {"both","send","recv"}
Map(a, e)       == [k |-> "map", key |-> a, e |-> e]
V(n, t)         == [n |-> n, t |-> t]            \* a named (or unnamed "") variable
Fn(ps, rs, va)  == [k |-> "func", ps |-> ps, rs |-> rs, va |-> va]   \* va: last param is ...T (T stored)
Fld(n, t, tag, emb) == [n |-> n, t |-> t, tag |-> tag, emb |-> emb]
Struct(fs)      == [k |-> "struct", fs |-> fs]
Meth(n, ps, rs, va) == [n |-> n, ps |-> ps, rs |-> rs, va |-> va]
Iface(ms, es)   == [k |-> "iface", ms |-> ms, es |-> es]  \* anonymous interface literal
Union(ts)       == [k |-> "union", ts |-> ts]    \* constraint element ~t1 | ~t2; a term Plain(t) is spelled without the tilde
Plain(t)        == [k |-> "plain", e |-> t]
\* a constraint with SEVERAL elements is an interface literal Iface(methods, elements) whose elements are `comparable`,
\* unions / tilde terms (also over composite types mentioning imported packages), named constraints -- in source order

BasicNames == {"int", "string", "bool", "float64", "byte", "rune", "uintptr", "complex128", "error", "any", "comparable",
               "uint8", "int64"}
ComparableLeaves == {B("string"), B("int"), N("SRC", "LE"), N("FX", "E")}

\* the type of the i-th parameter as go/types sees it (variadic ...T is []T)
ParamType(m, i) == IF m.va /\ i = Len(m.ps) THEN Slice(m.ps[i].t) ELSE m.ps[i].t

(* ------------------------------------------------------------------------ *)
(* Library of named types the helper packages declare (fixed Go source in    *)
(* lib/codegen_worlds.py).  Every foreign package declares the same names.   *)
\*   T struct, I interface{Do(T) error}, G[T any] struct, E int, A = T, Client = internal/impl.Client, Token = token,
\*   C constraint ~int|~string,
\*   GI[T any] interface{Get() T; Put(v T)}, RW interface{Read;Write}
\* local (SRC): LT struct, lt struct, LI interface{Foo()}, LG[T any], LG2[K comparable,V any],
\*   LA = FX.T, LE int, LGI[T any] interface{Get() T; Put(v T)}, LC constraint, and adversarially named ones
\* Client = impl.Client (impl under the package's internal/ directory: not importable from the destination);
\* Token = token (exported alias of an unexported type).  Nameable THROUGH the alias, hence inside the guarantee.
\* AnyA = any (every foreign package), LAnyA = any (SRC): ALIASES of the empty interface -- identical to it.
\* EI interface{} (every foreign package), LEI interface{} (SRC): DEFINED types whose underlying type is the empty interface.
AliasNames == {"A", "LA", "Client", "Token", "AnyA", "LAnyA"}
IsAliasTerm(t) == t.k = "named" /\ t.n \in AliasNames
EmptyIfaceAliasNames   == {"AnyA", "LAnyA"}
EmptyIfaceDefinedNames == {"EI", "LEI"}

(* ------------------------------------------------------------------------ *)
(* CONTRACT (Go spec, identity / assignability): which element types E of a  *)
(* variadic parameter `xs ...E` make the slice xs usable AS IT IS where a    *)
(* []interface{} is wanted (`f(xs...)` with f(...interface{}),               *)
(* `append([]interface{}, xs...)`): only those IDENTICAL to the empty        *)
(* interface -- `any`, `interface{}`, an alias of them.  A DEFINED type whose *)
(* underlying type is the empty interface and a type parameter (whatever its *)
(* constraint) are different types: []E is not assignable to []interface{},  *)
(* the elements have to be copied one by one.  Any generated code that       *)
(* forwards variadic arguments (testify unroll-variadic, matryer call        *)
(* recording) sits on one side of this line per element class.               *)
IsEmptyIfaceLit(t) == t.k = "iface" /\ t.ms = << >> /\ t.es = << >>
IdenticalToEmptyIface(t) == \/ (t.k = "basic" /\ t.n = "any")
                            \/ IsEmptyIfaceLit(t)
                            \/ (t.k = "named" /\ t.n \in EmptyIfaceAliasNames)
UnderlyingIsEmptyIface(t) == IdenticalToEmptyIface(t) \/ (t.k = "named" /\ t.n \in EmptyIfaceDefinedNames)
SliceUsableAsEmptyIfaceSlice(t) == IdenticalToEmptyIface(t)
\* class of a variadic element type (tpc: constraint of the type parameter when the element is one, else << >>)
NamedIfaceNames == {"I", "LI", "GI", "LGI", "RW", "TI", "Reader", "Writer", "ReadWriter", "Context", "Stringer", "Locker"}
TpConstraintClass(cn) == IF cn.k = "basic" /\ cn.n = "any" THEN "any"
                         ELSE IF cn.k = "basic" /\ cn.n = "comparable" THEN "comparable"
                         ELSE IF cn.k = "union" \/ (cn.k = "basic") THEN "union"
                         ELSE IF cn.k = "named" THEN "named" ELSE "iface"
VariadicElemClass(t, tpc) ==
  CASE t.k = "basic" /\ t.n = "any"   -> "any"
    [] IsEmptyIfaceLit(t)               -> "empty-iface-lit"
    [] t.k = "named" /\ t.n \in EmptyIfaceAliasNames   -> "alias-of-any"
    [] t.k = "named" /\ t.n \in EmptyIfaceDefinedNames -> "defined-empty-iface"
    [] t.k = "basic" /\ t.n = "error"  -> "nonempty-iface"
    [] t.k \in {"named", "inst"} /\ t.n \in NamedIfaceNames -> "nonempty-iface"
    [] t.k = "iface"                    -> "nonempty-iface"
    [] t.k = "tp"                       -> "tparam-" \o TpConstraintClass(tpc)
    [] t.k = "basic"                    -> "basic"
    [] t.k = "unsafe"                   -> "basic"
    [] t.k = "named" /\ t.n \in AliasNames -> "alias"
    [] t.k = "named"                    -> "named"
    [] t.k = "inst"                     -> "inst"
    [] OTHER                            -> t.k            \* ptr, slice, array, chan, map, func, struct

(* ------------------------------------------------------------------------ *)
(* CONTRACT: what a rendered type refers to.                                *)
RECURSIVE RefPkgs(_)
RefPkgsVars(vs) == UNION {RefPkgs(vs[i].t) : i \in 1..Len(vs)}
RefPkgs(t) ==
  CASE t.k = "basic"  -> {}
    [] t.k = "tp"     -> {}
    [] t.k = "unsafe" -> {"Sunsafe"}
    [] t.k = "named"  -> {t.p}
    [] t.k = "inst"   -> {t.p} \cup UNION {RefPkgs(t.as[i]) : i \in 1..Len(t.as)}
    [] t.k \in {"ptr", "slice", "array", "chan"} -> RefPkgs(t.e)
    [] t.k = "map"    -> RefPkgs(t.key) \cup RefPkgs(t.e)
    [] t.k = "func"   -> RefPkgsVars(t.ps) \cup RefPkgsVars(t.rs)
    [] t.k = "struct" -> UNION {RefPkgs(t.fs[i].t) : i \in 1..Len(t.fs)}
    [] t.k = "union"  -> UNION {RefPkgs(t.ts[i]) : i \in 1..Len(t.ts)}
    [] t.k = "plain"  -> RefPkgs(t.e)
    [] t.k = "iface"  -> UNION {RefPkgsVars(t.ms[i].ps) \cup RefPkgsVars(t.ms[i].rs) : i \in 1..Len(t.ms)}
                         \cup UNION {RefPkgs(t.es[i]) : i \in 1..Len(t.es)}

\* identifiers the rendered type resolves in file/universe scope (a variable of that name captures them)
RECURSIVE BareIdents(_, _)
BareIdentsVars(vs, inpkg) == UNION {BareIdents(vs[i].t, inpkg) : i \in 1..Len(vs)}
BareIdents(t, inpkg) ==
  CASE t.k = "basic"  -> {t.n}
    [] t.k = "tp"     -> {t.n}
    [] t.k = "unsafe" -> {}
    [] t.k = "named"  -> IF t.p = "SRC" /\ inpkg THEN {t.n} ELSE {}
    [] t.k = "inst"   -> (IF t.p = "SRC" /\ inpkg THEN {t.n} ELSE {}) \cup UNION {BareIdents(t.as[i], inpkg) : i \in 1..Len(t.as)}
    [] t.k \in {"ptr", "slice", "array", "chan"} -> BareIdents(t.e, inpkg)
    [] t.k = "map"    -> BareIdents(t.key, inpkg) \cup BareIdents(t.e, inpkg)
    [] t.k = "func"   -> BareIdentsVars(t.ps, inpkg) \cup BareIdentsVars(t.rs, inpkg)
    [] t.k = "struct" -> UNION {BareIdents(t.fs[i].t, inpkg) : i \in 1..Len(t.fs)}
    [] t.k = "union"  -> UNION {BareIdents(t.ts[i], inpkg) : i \in 1..Len(t.ts)}
    [] t.k = "plain"  -> BareIdents(t.e, inpkg)
    [] t.k = "iface"  -> UNION {BareIdentsVars(t.ms[i].ps, inpkg) \cup BareIdentsVars(t.ms[i].rs, inpkg) : i \in 1..Len(t.ms)}
                         \cup UNION {BareIdents(t.es[i], inpkg) : i \in 1..Len(t.es)}

\* shape features of a term (constructor kinds occurring), for stratified sampling and violation signatures
RECURSIVE Kinds(_)
KindsVars(vs) == UNION {Kinds(vs[i].t) : i \in 1..Len(vs)}
Kinds(t) ==
  CASE t.k \in {"basic", "tp", "unsafe"} -> {t.k}
    [] t.k = "named"  -> {IF t.n \in AliasNames THEN "alias" ELSE "named"}
    [] t.k = "inst"   -> {"inst"} \cup UNION {Kinds(t.as[i]) : i \in 1..Len(t.as)}
    [] t.k \in {"ptr", "slice", "array"} -> {t.k} \cup Kinds(t.e)
    [] t.k = "chan"   -> {"chan-" \o t.d} \cup Kinds(t.e)
    [] t.k = "map"    -> {"map"} \cup Kinds(t.key) \cup Kinds(t.e)
    [] t.k = "func"   -> {IF t.va THEN "func-variadic" ELSE "func"} \cup KindsVars(t.ps) \cup KindsVars(t.rs)
    [] t.k = "struct" -> {"struct"} \cup UNION {Kinds(t.fs[i].t) : i \in 1..Len(t.fs)}
    [] t.k = "union"  -> {"union"} \cup UNION {Kinds(t.ts[i]) : i \in 1..Len(t.ts)}
    [] t.k = "plain"  -> {"plain"} \cup Kinds(t.e)
    [] t.k = "iface"  -> {"iface"} \cup UNION {KindsVars(t.ms[i].ps) \cup KindsVars(t.ms[i].rs) : i \in 1..Len(t.ms)}
                         \cup UNION {Kinds(t.es[i]) : i \in 1..Len(t.es)}


\* compact printable key of a term (program ids, violation signatures)
RECURSIVE Show(_)
RECURSIVE ShowSeq(_)
ShowSeq(ts) == IF ts = << >> THEN "" ELSE Show(Head(ts)) \o (IF Len(ts) > 1 THEN "," ELSE "") \o ShowSeq(Tail(ts))
ShowVars(vs) == ShowSeq([i \in 1..Len(vs) |-> vs[i].t])
Show(t) ==
  CASE t.k \in {"basic", "tp"} -> t.n
    [] t.k = "unsafe" -> "unsafe.Pointer"
    [] t.k = "named"  -> t.p \o "." \o t.n
    [] t.k = "inst"   -> t.p \o "." \o t.n \o "[" \o ShowSeq(t.as) \o "]"
    [] t.k = "ptr"    -> "ptr(" \o Show(t.e) \o ")"
    [] t.k = "slice"  -> "slice(" \o Show(t.e) \o ")"
    [] t.k = "array"  -> "array(" \o Show(t.e) \o ")"
    [] t.k = "chan"   -> "chan-" \o t.d \o "(" \o Show(t.e) \o ")"
    [] t.k = "map"    -> "map(" \o Show(t.key) \o "," \o Show(t.e) \o ")"
    [] t.k = "func"   -> (IF t.va THEN "vfunc(" ELSE "func(") \o ShowVars(t.ps) \o ";" \o ShowVars(t.rs) \o ")"
    [] t.k = "struct" -> "struct(" \o ShowSeq([i \in 1..Len(t.fs) |-> t.fs[i].t]) \o (IF \E i \in 1..Len(t.fs) : t.fs[i].emb THEN ";emb" ELSE "")
                                   \o (IF \E i \in 1..Len(t.fs) : t.fs[i].tag # "" THEN ";tag" ELSE "") \o ")"
    [] t.k = "union"  -> "union(" \o ShowSeq(t.ts) \o ")"
    [] t.k = "plain"  -> "plain(" \o Show(t.e) \o ")"
    [] t.k = "iface"  -> "iface(" \o ShowSeq([i \in 1..Len(t.ms) |-> Fn(t.ms[i].ps, t.ms[i].rs, t.ms[i].va)]) \o ";" \o ShowSeq(t.es) \o ")"

\* names of types of the package under test a term mentions (the source file must declare them)
RECURSIVE LocalNames(_)
LocalNamesVars(vs) == UNION {LocalNames(vs[i].t) : i \in 1..Len(vs)}
LocalNames(t) == BareIdents(t, TRUE) \ BareIdents(t, FALSE)

(* ------------------------------------------------------------------------ *)
(* Substitution of type parameters (instantiated generic interfaces).        *)
RECURSIVE Subst(_, _)
SubstVars(vs, env) == [i \in 1..Len(vs) |-> [vs[i] EXCEPT !.t = Subst(vs[i].t, env)]]
SubstMeth(m, env) == [m EXCEPT !.ps = SubstVars(m.ps, env), !.rs = SubstVars(m.rs, env)]
Subst(t, env) ==
  CASE t.k \in {"basic", "unsafe", "named"} -> t
    [] t.k = "tp"     -> IF t.n \in DOMAIN env THEN env[t.n] ELSE t
    [] t.k = "inst"   -> [t EXCEPT !.as = [i \in 1..Len(t.as) |-> Subst(t.as[i], env)]]
    [] t.k \in {"ptr", "slice", "array", "chan"} -> [t EXCEPT !.e = Subst(t.e, env)]
    [] t.k = "map"    -> [t EXCEPT !.key = Subst(t.key, env), !.e = Subst(t.e, env)]
    [] t.k = "func"   -> [t EXCEPT !.ps = SubstVars(t.ps, env), !.rs = SubstVars(t.rs, env)]
    [] t.k = "struct" -> [t EXCEPT !.fs = [i \in 1..Len(t.fs) |-> [t.fs[i] EXCEPT !.t = Subst(t.fs[i].t, env)]]]
    [] t.k = "union"  -> [t EXCEPT !.ts = [i \in 1..Len(t.ts) |-> Subst(t.ts[i], env)]]
    [] t.k = "plain"  -> [t EXCEPT !.e = Subst(t.e, env)]
    [] t.k = "iface"  -> [t EXCEPT !.ms = [i \in 1..Len(t.ms) |-> SubstMeth(t.ms[i], env)],
                                  !.es = [i \in 1..Len(t.es) |-> Subst(t.es[i], env)]]

(* ------------------------------------------------------------------------ *)
(* Interface declarations and method sets.                                   *)
(* decl == [n, tps : Seq([n, c]), es : Seq(type term naming an interface), ms : Seq(Meth)]   *)
\* interfaces declared by the helper packages / stdlib (their method sets are part of the contract)
Bytes == Slice(B("byte"))
LibIface(p, n) ==
  CASE n = "I"  /\ p \in ForeignPkgs -> [tps |-> << >>, es |-> << >>, ms |-> <<Meth("Do", <<V("", N(p, "T"))>>, <<V("", B("error"))>>, FALSE)>>]
    [] n = "GI" /\ p \in ForeignPkgs -> [tps |-> <<"T">>, es |-> << >>,
                                         ms |-> <<Meth("Get", << >>, <<V("", TP("T"))>>, FALSE), Meth("Put", <<V("v", TP("T"))>>, << >>, FALSE)>>]
    [] n = "RW" /\ p \in ForeignPkgs -> [tps |-> << >>, es |-> << >>,
                                         ms |-> <<Meth("Read", <<V("p", Bytes)>>, <<V("n", B("int")), V("err", B("error"))>>, FALSE),
                                                  Meth("Write", <<V("p", Bytes)>>, <<V("n", B("int")), V("err", B("error"))>>, FALSE)>>]
    [] p = "Sio" /\ n = "Reader" -> [tps |-> << >>, es |-> << >>, ms |-> <<Meth("Read", <<V("p", Bytes)>>, <<V("n", B("int")), V("err", B("error"))>>, FALSE)>>]
    [] p = "Sio" /\ n = "Writer" -> [tps |-> << >>, es |-> << >>, ms |-> <<Meth("Write", <<V("p", Bytes)>>, <<V("n", B("int")), V("err", B("error"))>>, FALSE)>>]
    [] p = "Sio" /\ n = "ReadWriter" -> [tps |-> << >>, es |-> <<N("Sio", "Reader"), N("Sio", "Writer")>>, ms |-> << >>]
    [] p = "Sfmt" /\ n = "Stringer" -> [tps |-> << >>, es |-> << >>, ms |-> <<Meth("String", << >>, <<V("", B("string"))>>, FALSE)>>]
    [] p = "Ssync" /\ n = "Locker" -> [tps |-> << >>, es |-> << >>, ms |-> <<Meth("Lock", << >>, << >>, FALSE), Meth("Unlock", << >>, << >>, FALSE)>>]

\* decls: function name -> local declaration record (tps as sequence of [n, c])
\* TI: a foreign interface whose method mentions a THIRD package (time): embedding it in an anonymous interface must not
\* import that package.
DeclOf(decls, t) ==
  IF t.p = "SRC" THEN LET d == decls[t.n] IN [tps |-> [i \in 1..Len(d.tps) |-> d.tps[i].n], es |-> d.es, ms |-> d.ms]
  ELSE LibIface(t.p, t.n)

Env(tps, as) == [x \in {tps[i] : i \in 1..Len(tps)} |-> as[CHOOSE i \in 1..Len(tps) : tps[i] = x]]

\* set of methods (records with substituted types); identical methods reached through several embeds collapse
RECURSIVE MethodSetOf(_, _, _)
MethodSetOf(decls, t, depth) ==
  IF depth = 0 THEN {}
  \* embedded predeclared interfaces: `error` (a named type of the universe, no package) and `any`
  ELSE IF t.k = "basic" THEN (IF t.n = "error" THEN {Meth("Error", << >>, <<V("", B("string"))>>, FALSE)} ELSE {})
  ELSE
  LET d   == DeclOf(decls, t)
      env == IF t.k = "inst" THEN Env(d.tps, t.as) ELSE << >>
      own == {SubstMeth(d.ms[i], env) : i \in 1..Len(d.ms)}
      emb == UNION {MethodSetOf(decls, Subst(d.es[i], env), depth - 1) : i \in 1..Len(d.es)}
  IN own \cup emb

\* parameter/result names are not part of a method's identity
StripNames(vs) == [i \in 1..Len(vs) |-> vs[i].t]
MethodId(m) == [n |-> m.n, ps |-> StripNames(m.ps), rs |-> StripNames(m.rs), va |-> m.va]

\* method set of a local declaration used as the mock target (its own type parameters stay free)
TargetMethodSet(decls, name) ==
  LET d == decls[name]
      self == IF Len(d.tps) = 0 THEN N("SRC", name) ELSE Inst("SRC", name, [i \in 1..Len(d.tps) |-> TP(d.tps[i].n)])
  IN MethodSetOf(decls, self, 5)

\* CONTRACT (C02/C14): names are unique in a well-formed method set (Go rejects the program otherwise)
WellFormedMethodSet(ms) == \A a, b \in ms : a.n = b.n => MethodId(a) = MethodId(b)
MethodNames(ms) == {m.n : m \in ms}
PickByName(ms, n) == CHOOSE m \in ms : m.n = n


(* ------------------------------------------------------------------------ *)
(* C02: admissible type arguments.  A bounded model set per constraint; the  *)
(* mock instantiated with any of them must be assignable to the instantiated *)
(* source interface.                                                         *)
\* candidate type arguments and what the satisfaction relation needs to know about them
Candidates == {B("int"), B("string"), B("uint8"), N("SRC", "LE"), N("SRC", "LT"), N("SRC", "LS"), N("SRC", "LSI"), N("FX", "E"),
               Ptr(N("SRC", "LT")), Slice(N("FX", "T")), Slice(N("Stime", "Duration")), Slice(N("SRC", "LT")), Slice(N("FY", "T")),
               Map(B("string"), Ptr(N("FX", "T"))), Fn(<<V("", N("Scontext", "Context"))>>, <<V("", B("error"))>>, FALSE),
               N("SRC", "LL"), N("SRC", "LLeaf"), N("FX", "Leaf")}      \* LLeaf / FX.Leaf: struct types with Pos() int and isNode()                                     \* type LL int with Less(LL) bool and String() string
UnderlyingOf(t) == IF t.k = "named" THEN (IF t.n \in {"LE", "LSI", "E", "LL"} THEN B("int") ELSE [k |-> "struct-decl", n |-> t.n]) ELSE t
IsComparableType(t) == t.k \in {"basic", "named", "ptr"}
\* methods constraints of the alphabet ask for: String() string, Less(T) bool (recursive constraint)
HasMethodNamed(t, m) == t.k = "named" /\ (\/ (m = "String" /\ t.n \in {"LS", "LSI", "LL"}) \/ (m = "Less" /\ t.n = "LL")
                                          \/ (m \in {"Pos", "isNode"} /\ t.n \in {"LLeaf", "Leaf"}))
\* an unexported method can only be provided by a type of the package that declares the constraint
\* named constraints of the helper packages / the package under test, as element lists
NamedConstraint(n) ==
  CASE n \in {"C", "LC"} -> Iface(<< >>, <<Union(<<B("int"), B("string")>>)>>)
    [] n = "Ordered"  -> Iface(<< >>, <<Union(<<B("int"), B("int64"), B("float64"), B("string")>>)>>)
    [] n = "Number"   -> Iface(<< >>, <<Union(<<B("int"), B("int64")>>)>>)
    [] n = "LStr"     -> Iface(<< >>, <<Union(<<B("string")>>)>>)
    [] n = "Stringer" -> Iface(<<Meth("String", << >>, <<V("", B("string"))>>, FALSE)>>, << >>)
    \* the empty interface under another name (alias or defined type) used as a constraint: every type satisfies it
    [] n \in EmptyIfaceAliasNames \cup EmptyIfaceDefinedNames -> Iface(<< >>, << >>)
    \* sealed constraints: an exported and an UNEXPORTED method -- only types of the declaring package satisfy them
    [] n \in {"LSealed", "Sealed"} -> Iface(<<Meth("Pos", << >>, <<V("", B("int"))>>, FALSE), Meth("isNode", << >>, << >>, FALSE)>>, << >>)
\* does type t satisfy constraint (element) cn?  A constraint with several elements is the INTERSECTION of its elements.
RECURSIVE Sat(_, _)
Sat(t, cn) ==
  CASE cn.k = "basic" -> IF cn.n = "any" THEN TRUE ELSE IF cn.n = "comparable" THEN IsComparableType(t) ELSE t = cn
    [] cn.k = "union" -> \E i \in 1..Len(cn.ts) : IF cn.ts[i].k = "plain" THEN t = cn.ts[i].e ELSE UnderlyingOf(t) = cn.ts[i]
    [] cn.k = "named" -> Sat(t, NamedConstraint(cn.n)) /\ (cn.n \in {"LSealed", "Sealed"} => (t.k = "named" /\ t.p = cn.p))
    [] cn.k = "iface" -> /\ \A i \in 1..Len(cn.es) : Sat(t, cn.es[i])
                         /\ \A i \in 1..Len(cn.ms) : HasMethodNamed(t, cn.ms[i].n)
ConstraintModels(cn) == {t \in Candidates : Sat(t, cn)}
RECURSIVE TargTuples(_)
TargTuples(tps) == IF tps = << >> THEN {<< >>}
                   ELSE {<<a>> \o rest : a \in ConstraintModels(Head(tps).c), rest \in TargTuples(Tail(tps))}

(* ------------------------------------------------------------------------ *)
(* Order of method names as go/types sorts them (byte-wise by Id).  Strings  *)
(* are not ordered in TLC; this table lists every method name the families   *)
(* use, ascending.  lib/codegen_worlds.py asserts that it is sorted (on the  *)
(* concretised names: "Zz.." stand for non-ASCII identifiers, which TLC      *)
(* cannot print; an unexported name sorts by package-path-qualified Id).     *)
MethodOrder == <<"All", "Close", "Do", "EXPECT", "Error", "Foo", "Func", "Get", "GetCalls", "Lock", "M", "M1", "M2", "M3", "M4", "MCalls",
                 "N", "On", "Put", "Range", "Read", "ResetCalls", "String", "Type", "Unlock", "V", "W", "Write", "X",
                 "m", "Zzecoute">>
MRank(n) == CHOOSE i \in 1..Len(MethodOrder) : MethodOrder[i] = n
RECURSIVE SortByRank(_)
SortByRank(ms) ==
  IF ms = {} THEN << >>
  ELSE LET m == CHOOSE x \in ms : \A y \in ms : MRank(x.n) <= MRank(y.n)
       IN <<m>> \o SortByRank(ms \ {y \in ms : y.n = m.n})
=============================================================================
