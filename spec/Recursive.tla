----------------------------- MODULE Recursive -----------------------------
(***************************************************************************)
(* C07 (recursive half) and the Initialize half of C06.                    *)
(*                                                                         *)
(* A world W is a small directory tree below the module root plus what     *)
(* .mockery.yml says about it:                                             *)
(*   n      number of nodes; node 1 is the top directory "r"               *)
(*   par    par[k] = parent node (0: directly below the world directory;   *)
(*          several top-level directories = unrelated packages)            *)
(*   up     up[k]: the directory name is written in upper case ("B"), so   *)
(*          that case-sensitive and (?i) exclusion entries differ on it    *)
(*   ext    ext[k]: the directory is named like its first sibling plus a   *)
(*          suffix ("a" / "ax"): one name is a STRING prefix of the other  *)
(*          although neither directory contains the other                  *)
(*   kind   "go" (has Go files) | "test" (only _test.go files) | "empty" | *)
(*          "tagged" (only files excluded by a build constraint) |         *)
(*          "testdata" | "under" (_x) | "dot" (.x) | "vendor" |            *)
(*          "submod" (has its own go.mod) -- the last five contain Go files *)
(*   on     on[k]: the package is written in `packages:`                   *)
(*   rec, all   "U" (not written) | "T" | "F"    at packages.<k>.config    *)
(*   sn     the package writes its own structname                          *)
(*   excl   0 (exclude-subpkg-regex not written) | index into Excl lists   *)
(*   root   [rec, all, excl] at the top level of the file                  *)
(*                                                                         *)
(* Contract layer: AllowedSrc(k) -- whose settings package k must end up   *)
(*   with (0 = not in the package table), order free: "exactly the sub-    *)
(*   packages that contain Go files and do not match an exclusion regex    *)
(*   are added, and are treated as if configured with the settings of      *)
(*   their nearest configured recursive ancestor".                         *)
(* Code-shaped layer: RootConfig.Initialize (config/config.go:338-410) --  *)
(*   loop 1 ranges over a Go map (nondeterministic pick), the recursive    *)
(*   packages are sorted deepest first, loop 2 injects; Initialize runs    *)
(*   twice (NewRootConfig and RootApp.Run).                                *)
(***************************************************************************)
EXTENDS Naturals, Sequences, FiniteSets, TLC, Json

CONSTANTS MaxNodes,       \* largest tree
          ExportMod,      \* every world is model checked; those with WHash % ExportMod = 0 are exported for replay
          PayloadVariants, \* subset of {0, 1, 2}: rotations of the payload placement tried per (tree, configured set)
          Family          \* "discovery" | "inherit" | "none" (trace validation: W comes from the trace)

VARIABLES W,              \* the world (constant within a behaviour)
          pk,             \* the package table: node -> [present, marker, rec, all, excl, prefix]
          pc,             \* "loop1" | "sort" | "loop2" | "done"
          pass,           \* 1 | 2
          pending,        \* loop 1: packages of the map not yet visited
          recq            \* recursive packages: collected in visit order, then sorted, then consumed

vars == <<W, pk, pc, pass, pending, recq>>

Lab == <<"r", "a", "b", "c", "d">>
PlainKinds == {"go", "test", "empty"}
FreeKinds  == {"tagged", "testdata", "under", "dot", "vendor", "submod"}
HidingKinds == FreeKinds \ {"tagged"}          \* hide themselves and everything below from `...` patterns
NExcl == 9

Nodes == 1..W.n
\* first sibling (same parent, smaller index) of k in world w; 0 if there is none
FirstSibling(w, k) == IF \E j \in 1..(k - 1) : w.par[j] = w.par[k]
                      THEN CHOOSE j \in 1..(k - 1) : w.par[j] = w.par[k] /\ \A i \in 1..(j - 1) : w.par[i] # w.par[k]
                      ELSE 0
NameKinds == {"go", "test", "empty", "tagged", "submod"}          \* kinds whose directory name is free
ExtOK(w, k) == /\ w.ext[k] => /\ FirstSibling(w, k) # 0 /\ w.kind[k] \in NameKinds
                              /\ w.kind[FirstSibling(w, k)] \in NameKinds /\ ~w.ext[FirstSibling(w, k)]
                              /\ ~w.up[FirstSibling(w, k)]
               /\ w.up[k] => w.kind[k] \in NameKinds /\ ~w.ext[k] /\ k > 1
UpLab == <<"R", "A", "B", "C", "D">>
Label(k) == CASE W.kind[k] = "testdata" -> "testdata"
              [] W.kind[k] = "vendor"   -> "vendor"
              [] W.kind[k] = "under"    -> "_" \o Lab[k]
              [] W.kind[k] = "dot"      -> "." \o Lab[k]
              [] W.ext[k]               -> Lab[FirstSibling(W, k)] \o "x"
              [] W.up[k]                -> UpLab[k]
              [] OTHER                  -> Lab[k]

RECURSIVE Anc(_)
Anc(k) == IF W.par[k] = 0 THEN {} ELSE {W.par[k]} \cup Anc(W.par[k])     \* proper ancestors
RECURSIVE Depth(_)
Depth(k) == IF W.par[k] = 0 THEN 1 ELSE 1 + Depth(W.par[k])
Sub(a) == {k \in Nodes : k = a \/ a \in Anc(k)}                            \* a/... in Go's pattern language
Hidden(k) == \E j \in Anc(k) \cup {k} : W.kind[j] \in HidingKinds
Strict(k) == ~Hidden(k) /\ W.kind[k] \in PlainKinds                        \* the statement decides about k
HasGo(k) == W.kind[k] = "go"

\* ------------------------------------------------------------------ exclusion lists (Go regexps, see RecursiveMC)
\* value -> list of patterns; the concrete regexps are in ExclPatterns, their meaning on a node in PatMatch.
\* A LIST excludes a package iff SOME ENTRY ALONE matches it.  Lists 7-9 have entries that would interact if they were
\* concatenated into one expression: an inline flag in an earlier / a later entry, per-entry anchors, an entry that
\* is itself an alternation.
ExclPatterns == << <<"/b$">>, <<"/a(/|$)">>, <<"/r/[a-z]$">>, <<".">>, <<"/b$", "/r/[a-z]$">>, <<"/a$">>,
                   <<"(?i)/C(/|$)", "/b$">>, <<"^example\\.com/w/[^/]+/r$", "/c$">>, <<"/a|/b$", "(?i)/D$">> >>
PatMatch(p, k) ==
  CASE p = "/b$"        -> Label(k) = "b"
    [] p = "/a(/|$)"    -> \E j \in Anc(k) \cup {k} : Label(j) = "a"
    [] p = "/r/[a-z]$"  -> W.par[k] = 1 /\ Label(k) = Lab[k]
    [] p = "."          -> TRUE
    [] p = "/a$"        -> Label(k) = "a"
    [] p = "(?i)/C(/|$)" -> \E j \in Anc(k) \cup {k} : Label(j) \in {"c", "C"}
    [] p = "^example\\.com/w/[^/]+/r$" -> W.par[k] = 0 /\ Label(k) = "r"
    [] p = "/c$"        -> Label(k) = "c"
    [] p = "/a|/b$"     -> (\E j \in Anc(k) \cup {k} : Label(j) \in {"a", "ax"}) \/ Label(k) = "b"
    [] p = "(?i)/D$"    -> Label(k) \in {"d", "D"}
XMatch(e, k) == e # 0 /\ \E j \in 1..Len(ExclPatterns[e]) : PatMatch(ExclPatterns[e][j], k)

\* ------------------------------------------------------------------ contract
CRec(k)  == W.on[k] /\ (W.rec[k] = "T" \/ (W.rec[k] = "U" /\ W.root.rec = "T"))
CExcl(k) == IF W.excl[k] # 0 THEN W.excl[k] ELSE W.root.excl
CAll(k)  == W.all[k] = "T" \/ (W.all[k] = "U" /\ W.root.all = "T")
CPrefix(k) == IF W.sn[k] THEN "N" \o ToString(k) ELSE "Mock"

RecAnc(k) == {a \in Anc(k) : CRec(a)}
Admits(a, k) == a \in RecAnc(k) /\ ~XMatch(CExcl(a), k)
Nearest(S) == CHOOSE a \in S : \A b \in S : Depth(a) >= Depth(b)

AllowedSrc(k) ==
  IF W.on[k] THEN {k}                                        \* explicitly configured: its own settings
  ELSE IF ~Strict(k) THEN {0} \cup RecAnc(k)                 \* the statement does not say whether this is a sub-package
  ELSE IF ~HasGo(k) \/ RecAnc(k) = {} THEN {0}
  ELSE IF Admits(Nearest(RecAnc(k)), k) THEN {Nearest(RecAnc(k))}
  ELSE {0} \cup {a \in RecAnc(k) : Admits(a, k)}             \* excluded by the nearest, admitted by a farther one: open

\* what the package table must say about k when its settings come from s
Settings(s) == [all |-> CAll(s), prefix |-> CPrefix(s)]

\* ------------------------------------------------------------------ code-shaped: the package table
\* (Absent, OwnOf: see "choosing the world" below)
\* NewDefaultKoanf: every scalar has a default at the top level
RootCfg == [present |-> TRUE, marker |-> 0, rec |-> IF W.root.rec = "U" THEN "F" ELSE W.root.rec,
            all |-> IF W.root.all = "U" THEN "F" ELSE W.root.all, excl |-> W.root.excl, prefix |-> "Mock"]
\* mergeConfigs(src, dst): only what dst leaves unset is taken from src
Merge(src, dst) == [present |-> TRUE,
                    marker |-> IF dst.marker = 0 THEN src.marker ELSE dst.marker,
                    rec    |-> IF dst.rec = "U" THEN src.rec ELSE dst.rec,
                    all    |-> IF dst.all = "U" THEN src.all ELSE dst.all,
                    excl   |-> IF dst.excl = 0 THEN src.excl ELSE dst.excl,
                    prefix |-> IF dst.prefix = "" THEN src.prefix ELSE dst.prefix]

Present == {k \in Nodes : pk[k].present}
\* packages.Load(r + "/...") with NeedFiles, then len(GoFiles) > 0   (config.go:412-432)
Discoverable(k) == W.kind[k] = "go" /\ ~Hidden(k)

\* sort.Slice: longer path first (all labels of present packages are single letters: length = depth), ties by path
Before(a, b) == Depth(a) > Depth(b) \/ (Depth(a) = Depth(b) /\ a < b)
RECURSIVE SortSet(_)
SortSet(S) == IF S = {} THEN << >>
              ELSE LET h == CHOOSE a \in S : \A b \in S \ {a} : Before(a, b) IN <<h>> \o SortSet(S \ {h})
SeqSet(s) == {s[j] : j \in 1..Len(s)}

\* ------------------------------------------------------------------ worlds
\* a later node hangs below an earlier one, or (forests) directly below the world directory.
\* Scope: forests and sibling-prefix names are explored exhaustively for up to 3 directories (4 in the "deep" family,
\* forests also in the largest "deep"/"orderdeep" trees); larger trees have one root and plain names.
UseForest(n) == n <= 3 \/ Family \in {"deep", "orderdeep"}
UseExt(n) == Family \notin {"order", "orderdeep"} /\ (n <= 3 \/ (Family = "deep" /\ n <= 4))
Trees(n) == {p \in [1..n -> 0..(n - 1)] : p[1] = 0 /\ \A k \in 2..n : p[k] < k /\ (UseForest(n) \/ p[k] >= 1)}
AllKinds == PlainKinds \cup FreeKinds
\* the configured top package normally has Go files; a recursive one may also be a mere container (no Go files, or only
\* _test.go files) of the sub-packages it stands for
KindVecs(n) == {kv \in [1..n -> AllKinds] : kv[1] \in {"go", "empty", "test"} /\ Cardinality({k \in 1..n : kv[k] \in FreeKinds}) <= 1}
ExclPairs == {<<0, 0>>} \cup {<<e, 0>> : e \in 1..NExcl} \cup {<<0, e>> : e \in 1..NExcl}
                        \cup {<<e, (e % NExcl) + 1>> : e \in 1..NExcl}            \* <<package level, top level>>
\* explicit tuples (strict values) instead of [k \in 1..n |-> ...]: TLC keeps the latter as closures, which makes
\* building and comparing thousands of world records slow
Tup(n, F(_)) == CASE n = 1 -> <<F(1)>> [] n = 2 -> <<F(1), F(2)>> [] n = 3 -> <<F(1), F(2), F(3)>>
                  [] n = 4 -> <<F(1), F(2), F(3), F(4)>> [] n = 5 -> <<F(1), F(2), F(3), F(4), F(5)>>
Const(n, v) == Tup(n, LAMBDA k : v)
\* at most one directory with a special name: <<ext vector, up vector>>
NameVecs(n) == {<<Tup(n, LAMBDA k : k = x), Const(n, FALSE)>> : x \in 0..n} \cup {<<Const(n, FALSE), Tup(n, LAMBDA k : k = x)>> : x \in 2..n}

\* Worlds are not enumerated as one big set of initial states (TLC computes initial states in one thread and
\* far too slowly for 10^4..10^5 records): a behaviour first CHOOSES its world in three small steps (tree, kinds,
\* configuration), then runs Initialize on it.  Which configurations are offered depends on the family.
Blank(n, p) == [n |-> n, par |-> p, ext |-> Const(n, FALSE), up |-> Const(n, FALSE), kind |-> Const(n, "go"), on |-> Const(n, FALSE), rec |-> Const(n, "U"),
                all |-> Const(n, "U"), sn |-> Const(n, FALSE), excl |-> Const(n, 0),
                root |-> [rec |-> "U", all |-> "U", excl |-> 0]]
EmptyWorld == Blank(1, <<0>>)

\* family "discovery": only the top package is configured (recursive, at either level); every kind of directory
DiscoveryConfigs(w) ==
  {[n |-> w.n, par |-> w.par, ext |-> w.ext, up |-> w.up, kind |-> w.kind,
    on |-> Tup(w.n, LAMBDA k : k = 1), rec |-> Tup(w.n, LAMBDA k : IF k = 1 THEN rm[1] ELSE "U"), all |-> Const(w.n, "U"),
    sn |-> Tup(w.n, LAMBDA k : k = 1), excl |-> Tup(w.n, LAMBDA k : IF k = 1 THEN xp[1] ELSE 0),
    root |-> [rec |-> rm[2], all |-> "T", excl |-> xp[2]]] :
     rm \in {<<"T", "U">>, <<"U", "T">>}, xp \in ExclPairs}

\* payload: which of all / structname are written where (they travel with the settings, independent of discovery)
Payload(v, n, onset) ==
  CASE v = 0 -> [rall |-> "T", all |-> Const(n, "U"), sn |-> Tup(n, LAMBDA k : k \in onset /\ k % 2 = 0)]
    [] v = 1 -> [rall |-> "U", all |-> Tup(n, LAMBDA k : IF k \in onset THEN "T" ELSE "U"), sn |-> Tup(n, LAMBDA k : k \in onset /\ k % 2 = 1)]
    [] v = 2 -> [rall |-> "U", all |-> Tup(n, LAMBDA k : IF k \in onset /\ k % 2 = 1 THEN "T" ELSE "U"), sn |-> Tup(n, LAMBDA k : k \in onset)]

\* one exclusion list somewhere (top level = node 0), or two different ones at both levels
ExclPlacements(onset) ==
  {[at |-> 0, v |-> 0, rv |-> 0]} \cup {[at |-> a, v |-> v, rv |-> 0] : a \in onset, v \in {1, 2, 3, 7}}
    \cup {[at |-> 0, v |-> 0, rv |-> v] : v \in {1, 2, 3, 9}} \cup {[at |-> a, v |-> 1, rv |-> 2] : a \in onset}

InheritWorld(w, onset, rv, rr, pl, xpl) ==
  [n |-> w.n, par |-> w.par, ext |-> w.ext, up |-> w.up, kind |-> Const(w.n, "go"),
   on |-> Tup(w.n, LAMBDA k : k \in onset), rec |-> Tup(w.n, LAMBDA k : IF k \in onset THEN rv[k] ELSE "U"),
   all |-> pl.all, sn |-> pl.sn,
   excl |-> Tup(w.n, LAMBDA k : IF k = xpl.at THEN xpl.v ELSE 0),
   root |-> [rec |-> rr, all |-> pl.rall, excl |-> xpl.rv]]
OnSets(n) == {s \in SUBSET (1..n) : s # {} /\ Cardinality(s) <= 3}

\* family "inherit": all directories have Go files; up to three configured packages, recursive or not, at any depth
InheritConfigs(w) ==
  UNION {{InheritWorld(w, onset, rv, rr, Payload((w.n + Cardinality(onset) + pv) % 3, w.n, onset), xpl) :
            rv \in [onset -> {"U", "T", "F"}], rr \in {"U", "T"}, pv \in PayloadVariants, xpl \in ExclPlacements(onset)} :
          onset \in OnSets(w.n)}

\* family "deep": only trees with exactly MaxNodes directories, recursion on or not written, one exclusion variant
DeepConfigs(w) ==
  UNION {{InheritWorld(w, onset, rv, "U", Payload(0, w.n, onset), xpl) :
            rv \in [onset -> {"U", "T"}],
            xpl \in {[at |-> 0, v |-> 0, rv |-> 0], [at |-> CHOOSE a \in onset : \A b \in onset : a <= b, v |-> 2, rv |-> 0]}} :
          onset \in OnSets(w.n)}

\* family "order" (Order.tla, C06): a generation profile g is attached; see Order.tla for its meaning
WithG(w, g) == [n |-> w.n, par |-> w.par, ext |-> w.ext, up |-> w.up, kind |-> w.kind, on |-> w.on, rec |-> w.rec, all |-> w.all, sn |-> w.sn,
                excl |-> w.excl, root |-> w.root, g |-> g]
Profiles == {[mode |-> m, layout |-> l, ents |-> e] :
               m \in {"none", "same", "differ-valid", "differ-invalid", "unfetchable"}, l \in {"perpkg", "periface"}, e \in {0, 2}}
OrderConfigs(w) ==
  UNION {{WithG(InheritWorld(w, onset, rv, "U", Payload(pv, w.n, onset), xpl), g) :
            rv \in [onset -> {"U", "T"}],
            pv \in IF Cardinality(onset) = 1 THEN {0, 2} ELSE {0},     \* 2: `all` only on odd packages (maybe nothing to do)
            xpl \in {[at |-> 0, v |-> 0, rv |-> 0], [at |-> CHOOSE a \in onset : \A b \in onset : a <= b, v |-> 1, rv |-> 0]},
            g \in Profiles} :
          onset \in OnSets(w.n)}

\* family "orderdeep": exactly MaxNodes directories, exactly three configured packages (so that a nested recursive pair can
\* coexist with an unrelated recursive package), few profiles
OrderDeepConfigs(w) ==
  UNION {{WithG(InheritWorld(w, onset, rv, "U", Payload(0, w.n, onset), [at |-> 0, v |-> 0, rv |-> 0]), g) :
            rv \in [onset -> {"U", "T"}],
            g \in {[mode |-> m, layout |-> "perpkg", ents |-> 0] : m \in {"same", "differ-valid"}}} :
          onset \in {s \in SUBSET (1..w.n) : Cardinality(s) = 3}}

\* special directory names (ext / up) are combined with plain kinds and with recursive on / not written only: the
\* dimensions are all present, their full cross product is not needed
SpecialName(w) == \E k \in 1..w.n : w.ext[k] \/ w.up[k]
RecOf(w, k) == w.rec[k] = "T" \/ (w.rec[k] = "U" /\ w.root.rec = "T")
WellFormed(w) == /\ \A k \in 1..w.n : (w.on[k] => (w.kind[k] = "go" \/ (w.kind[k] \in {"empty", "test"} /\ RecOf(w, k)))) /\ ExtOK(w, k)
                 /\ SpecialName(w) => \A k \in 1..w.n : w.kind[k] \in PlainKinds /\ w.rec[k] # "F"
                 \* container packages are explored without exclusion lists and special names (dimensions, not products)
                 /\ (\E k \in 1..w.n : w.on[k] /\ w.kind[k] # "go") => ~SpecialName(w) /\ w.root.excl = 0 /\ \A k \in 1..w.n : w.excl[k] = 0

\* ------------------------------------------------------------------ choosing the world
Absent == [present |-> FALSE, marker |-> 0, rec |-> "U", all |-> "U", excl |-> 0, prefix |-> ""]
OwnOf(w, k) == [present |-> TRUE, marker |-> k, rec |-> w.rec[k], all |-> w.all[k], excl |-> w.excl[k],
                prefix |-> IF w.sn[k] THEN "N" \o ToString(k) ELSE ""]

Init == /\ W = EmptyWorld /\ pk = <<Absent>>
        /\ pc = "choose-tree" /\ pass = 1 /\ pending = {} /\ recq = << >>

ChooseTree == /\ pc = "choose-tree"
              /\ \E n \in (IF Family \in {"deep", "orderdeep"} THEN {MaxNodes} ELSE 2..MaxNodes) : \E p \in Trees(n) : W' = Blank(n, p)
              /\ pc' = "choose-kinds"
              /\ UNCHANGED <<pk, pass, pending, recq>>

ChooseKinds == /\ pc = "choose-kinds"
               /\ \E xv \in (IF UseExt(W.n) THEN NameVecs(W.n) ELSE {<<Const(W.n, FALSE), Const(W.n, FALSE)>>}) :
                    /\ IF Family = "discovery" THEN \E kv \in KindVecs(W.n) : W' = [W EXCEPT !.kind = kv, !.ext = xv[1], !.up = xv[2]]
                                               ELSE W' = [W EXCEPT !.ext = xv[1], !.up = xv[2]]
                    /\ \A k \in 1..W.n : ExtOK(W', k)
                    /\ SpecialName(W') => \A k \in 1..W.n : W'.kind[k] \in PlainKinds
               /\ pc' = "choose-config"
               /\ UNCHANGED <<pk, pass, pending, recq>>

ConfigChoices == CASE Family = "discovery" -> DiscoveryConfigs(W)
                   [] Family = "inherit"   -> InheritConfigs(W)
                   [] Family = "deep"      -> DeepConfigs(W)
                   [] Family = "order"     -> OrderConfigs(W)
                   [] Family = "orderdeep" -> OrderDeepConfigs(W)
                   [] OTHER                -> {}

ChooseConfig == /\ pc = "choose-config"
                /\ \E w \in ConfigChoices :
                     /\ WellFormed(w)
                     /\ W' = w
                     /\ pk' = [k \in 1..w.n |-> IF w.on[k] THEN OwnOf(w, k) ELSE Absent]
                     /\ pending' = {k \in 1..w.n : w.on[k]}
                /\ pc' = "loop1" /\ pass' = 1 /\ recq' = << >>

Choosing == pc \in {"choose-tree", "choose-kinds", "choose-config"}

\* ------------------------------------------------------------------ code-shaped: RootConfig.Initialize, twice
\* config.go:342-364, one iteration of `for pkgName, pkgConfig := range c.Packages`
Loop1(p) == /\ pc = "loop1" /\ p \in pending
            /\ LET m == Merge(RootCfg, pk[p]) IN
                 /\ pk' = [pk EXCEPT ![p] = m]
                 /\ recq' = IF m.rec = "T" THEN Append(recq, p) ELSE recq
            /\ pending' = pending \ {p}
            /\ pc' = IF pending' = {} THEN "sort" ELSE "loop1"
            /\ UNCHANGED <<W, pass>>

\* config.go:369-374
SortRecursive == /\ pc = "sort"
                 /\ recq' = SortSet(SeqSet(recq))
                 /\ pc' = "loop2"
                 /\ UNCHANGED <<W, pk, pass, pending>>

\* config.go:375-407, one recursive package with all its sub-packages
Loop2 == /\ pc = "loop2" /\ recq # << >>
         /\ LET r == Head(recq) IN
              pk' = [k \in 1..W.n |->
                       IF ~(k \in Sub(r) /\ Discoverable(k)) THEN pk[k]
                       ELSE IF XMatch(pk[r].excl, k) THEN pk[k]                \* Exclude
                       ELSE IF pk[k].present THEN Merge(pk[r], pk[k])          \* Inject, existed
                       ELSE Merge(pk[r], Absent)]                              \* Inject, new
         /\ recq' = Tail(recq)
         /\ UNCHANGED <<W, pc, pass, pending>>

EndPass == /\ pc = "loop2" /\ recq = << >>
           /\ IF pass = 1 THEN /\ pass' = 2 /\ pc' = "loop1" /\ pending' = Present
                          ELSE /\ pass' = 2 /\ pc' = "done" /\ pending' = {}
           /\ UNCHANGED <<W, pk, recq>>

Next == ChooseTree \/ ChooseKinds \/ ChooseConfig \/ (\E p \in pending : Loop1(p)) \/ SortRecursive \/ Loop2 \/ EndPass
Spec == Init /\ [][Next]_vars

\* ------------------------------------------------------------------ Impl => Contract
Src(k) == IF pk[k].present THEN pk[k].marker ELSE 0
TableOK == \A k \in 1..W.n :
             /\ Src(k) \in AllowedSrc(k)
             /\ Src(k) # 0 => /\ (pk[k].all = "T") = Settings(Src(k)).all
                              /\ pk[k].prefix = Settings(Src(k)).prefix
\* the table is observable after the first Initialize (showconfig) and after the second (the run)
AfterInitialize == ~Choosing /\ ((pc = "loop2" /\ recq = << >>) \/ pc = "done")
ImplRefinesContract == AfterInitialize => TableOK
TypeOK == pc \in {"choose-tree", "choose-kinds", "choose-config", "loop1", "sort", "loop2", "done"} /\ pass \in {1, 2}
          /\ pending \subseteq 1..W.n

\* ------------------------------------------------------------------ export
RECURSIVE PathLabels(_)
PathLabels(k) == IF W.par[k] = 0 THEN <<Label(k)>> ELSE Append(PathLabels(W.par[k]), Label(k))
Expect == [k \in 1..W.n |->
             [allowed |-> AllowedSrc(k), strict |-> (Strict(k) \/ W.on[k]), labels |-> PathLabels(k),
              recanc |-> RecAnc(k),
              settings |-> Settings(k),                         \* what a package whose settings come from k looks like
              xm |-> [e \in 1..NExcl |-> XMatch(e, k)]]]
ImplTable == [k \in 1..W.n |-> [src |-> Src(k), all |-> pk[k].all, prefix |-> pk[k].prefix, rec |-> pk[k].rec]]
\* A configured package that has no Go files itself AND no sub-package `go list` finds below it names nothing that
\* could be mocked: the statement promises neither success nor failure for it (reporting it as missing is C09's
\* business), so the exit status of a run that contains such a package is open.  A container WITH discoverable
\* sub-packages is an ordinary recursive package: the run must succeed and mock them.
Barren(k) == W.on[k] /\ ~HasGo(k) /\ ~\E j \in Sub(k) \ {k} : Discoverable(j)
ContractMayFail == \E k \in 1..W.n : Barren(k)
CaseRec == [W |-> W, expect |-> Expect, impl |-> ImplTable, patterns |-> ExclPatterns, mayfail |-> ContractMayFail]
\* a cheap deterministic hash of the world, only used to thin the export (never for a verdict)
KindNum(kd) == CASE kd = "go" -> 0 [] kd = "test" -> 1 [] kd = "empty" -> 2 [] kd = "tagged" -> 3 [] kd = "testdata" -> 4
                 [] kd = "under" -> 5 [] kd = "dot" -> 6 [] kd = "vendor" -> 7 [] kd = "submod" -> 8
TNum(x) == CASE x = "T" -> 1 [] x = "F" -> 2 [] OTHER -> 0
BNum(b) == IF b THEN 1 ELSE 0
NodeHash(k) == W.par[k] + 3 * BNum(W.on[k]) + 5 * TNum(W.rec[k]) + 7 * W.excl[k] + 11 * BNum(W.ext[k]) + 13 * BNum(W.up[k])
               + 17 * KindNum(W.kind[k]) + 19 * BNum(W.sn[k]) + 23 * TNum(W.all[k])
RECURSIVE SumHash(_)
SumHash(k) == IF k = 0 THEN 0 ELSE (k + 1) * NodeHash(k) + SumHash(k - 1)
WHash == SumHash(W.n) + 29 * W.root.excl + 31 * TNum(W.root.rec) + 37 * TNum(W.root.all)
Emit == IF pc = "done" /\ WHash % ExportMod = 0 THEN PrintT(<<"CASE", ToJson(CaseRec)>>) ELSE TRUE
view == <<W, pk, pc, pass, pending, SeqSet(recq), IF pc = "loop2" THEN recq ELSE << >> >>
=============================================================================
