------------------------------- MODULE Header -------------------------------
(***************************************************************************)
(* C17 -- generated-file marker, boilerplate-file and mock-build-tags.    *)
(*                                                                         *)
(* Code-shaped layer: the header block of the two built-in templates      *)
(* (internal/mock_testify.templ:1-12, internal/mock_matryer.templ:1-12 --  *)
(* the same text), one action per section of that block, with the white-   *)
(* space trimming of the {{- ... }} actions spelled out, followed by the   *)
(* formatter (template_generator.go:189-200).  The state is the sequence   *)
(* of line classes of HeaderContract.tla.                                  *)
(*                                                                         *)
(*   raw text = L1 \n L2 \n L3                                             *)
(*              [ \n <content of boilerplate-file, verbatim> ]             *)
(*              [ \n \n //go:build <expr> ]                                *)
(*              \n \n package <name> ...                                   *)
(*                                                                         *)
(* TLC checks on every case that the header the model produces satisfies   *)
(* Go's rules (marker found by the ast.IsGenerated rule, boilerplate a     *)
(* contiguous block, the go/build rule includes the file exactly when the  *)
(* CONTRACT's truth table says so) and exports every case with the         *)
(* contract's expectation; the harness replays a sample through the        *)
(* binary and asks the toolchain.                                          *)
(***************************************************************************)
EXTENDS HeaderContract

CONSTANTS Tags, MaxDepth,        \* build expressions: ExprsUpTo(Tags, MaxDepth), and "not set"
          Shapes,                \* boilerplate shapes (see BoilerLines), "none" = boilerplate-file not set
          Formatters,
          Templates, Placements, PathKinds, Spellings   \* observation / spelling dimensions (no influence on the expectation)

VARIABLES expr, shape, nl, fmt,  \* the case
          pc, lines              \* template execution

vars == <<expr, shape, nl, fmt, pc, lines>>

ASSUME PrintT(<<"OBSDIMS", ToJson([templ |-> Templates, place |-> Placements, pathkind |-> PathKinds, spelling |-> Spellings])>>)

AllExprs == ExprsUpTo(Tags, MaxDepth)

\* comment-only boilerplate texts, as line classes (the harness writes matching bytes)
BoilerLines(s) ==
  CASE s = "none"   -> << >>
    [] s = "empty"  -> <<L("blank")>>                           \* an empty file still starts a new line
    [] s = "line1"  -> <<L("lc")>>
    [] s = "line3"  -> <<L("lc"), L("lc"), L("lc")>>
    [] s = "groups" -> <<L("lc"), L("lc"), L("blank"), L("lc")>>   \* two comment groups
    [] s = "block1" -> <<L("bone")>>
    [] s = "blockN" -> <<L("bopen"), L("bmid"), L("bmid"), L("bclose")>>
    [] s = "mixed"  -> <<L("bopen"), L("bclose"), L("lc")>>
    [] s = "lead"   -> <<L("blank"), L("blank"), L("lc"), L("lc")>>   \* the file starts with two empty lines

Init ==
  /\ expr \in AllExprs \cup {NoExpr}
  /\ shape \in Shapes
  /\ nl \in (IF shape = "none" THEN {FALSE} ELSE BOOLEAN)     \* trailing newline at the end of the boilerplate file
  /\ fmt \in Formatters
  /\ pc = "marker" /\ lines = << >>

\* lines 1-3 of the template
EmitMarker ==
  /\ pc = "marker" /\ pc' = "boilerplate"
  /\ lines' = <<L("marker"), L("lc"), L("lc")>>
  /\ UNCHANGED <<expr, shape, nl, fmt>>
\* {{- if boilerplate-file}} \n {{ readFile }} {{- end}} : a newline, then the bytes of the file.
\* A trailing newline of the file terminates its last line; what follows starts with a newline of its own,
\* which then shows as one more blank line.
EmitBoilerplate ==
  /\ pc = "boilerplate" /\ pc' = "buildtag"
  /\ lines' = IF shape = "none" THEN lines
              ELSE lines \o BoilerLines(shape) \o (IF nl THEN <<L("blank")>> ELSE << >>)
  /\ UNCHANGED <<expr, shape, nl, fmt>>
\* {{- if mock-build-tags}} \n\n //go:build X {{- end}}
EmitBuildTag ==
  /\ pc = "buildtag" /\ pc' = "package"
  /\ lines' = IF expr.op = "none" THEN lines ELSE lines \o <<L("blank"), GoBuild(expr)>>
  /\ UNCHANGED <<expr, shape, nl, fmt>>
\* \n\n package X
EmitPackage ==
  /\ pc = "package" /\ pc' = "format"
  /\ lines' = lines \o <<L("blank"), L("package")>>
  /\ UNCHANGED <<expr, shape, nl, fmt>>

\* gofmt / goimports (go/printer): runs of blank lines collapse to one, and fixGoBuildLines puts the
\* //go:build line at the latest place a constraint may stand -- after the last blank line of the leading run of
\* // comments and blank lines -- unless it already stands earlier.  A /* */ block ends that run: with a block
\* comment in the boilerplate the constraint moves to the very top of the file, above the marker.
\* noop leaves the text alone.
RECURSIVE Collapse(_)
Collapse(ls) ==
  IF Len(ls) <= 1 THEN ls
  ELSE IF ls[1].c = "blank" /\ ls[2].c = "blank" THEN Collapse(Tail(ls))
  ELSE <<ls[1]>> \o Collapse(Tail(ls))

SlashOrBlank(x) == x.c \in {"marker", "lc", "gobuild", "blank"}
LeadLen(ls) == CHOOSE n \in 0..Len(ls) : (\A i \in 1..n : SlashOrBlank(ls[i])) /\ (n < Len(ls) => ~SlashOrBlank(ls[n + 1]))
MaxOf(S) == CHOOSE x \in S : \A y \in S : y <= x
MinOf(S) == CHOOSE x \in S : \A y \in S : x <= y
InsertAfter(ls) == LET B == {i \in 1..LeadLen(ls) : ls[i].c = "blank"} IN IF B = {} THEN 0 ELSE MaxOf(B)
FixGoBuild(ls) ==
  LET G == {i \in 1..Len(ls) : ls[i].c = "gobuild"} IN
  IF G = {} THEN ls
  ELSE LET g == MinOf(G)
           ins == InsertAfter(ls)
       IN IF g <= ins THEN ls
          ELSE LET rest == SubSeq(ls, 1, g - 1) \o SubSeq(ls, g + 1, Len(ls))
               IN SubSeq(rest, 1, ins) \o <<ls[g], L("blank")>> \o SubSeq(rest, ins + 1, Len(rest))
Format ==
  /\ pc = "format" /\ pc' = "done"
  /\ lines' = IF fmt = "noop" THEN lines ELSE Collapse(FixGoBuild(lines))
  /\ UNCHANGED <<expr, shape, nl, fmt>>

Next == EmitMarker \/ EmitBoilerplate \/ EmitBuildTag \/ EmitPackage \/ Format
Spec == Init /\ [][Next]_vars

-----------------------------------------------------------------------------
(* Impl => Contract: the header the templates produce, read with Go's rules, is what the property demands *)
ImplGen      == GeneratedByRule(lines)
ImplVerbatim == VerbatimByRule(lines, BoilerLines(shape))
ImplIncl     == [n \in AsgNames |-> IncludedByRule(lines, n)]

ImplConforms == pc = "done" => RuleDecides(lines) /\ Demands(expr, ImplGen, ImplVerbatim, ImplIncl)
\* the marker is the first line until the formatter runs (which may lift the constraint above it)
MarkerFirst  == pc \notin {"marker", "done"} => lines[1].c = "marker"
OneConstraint == pc = "done" => Cardinality(BuildLines(lines)) = (IF expr.op = "none" THEN 0 ELSE 1)
\* the contract's table is not trivial: some expression is sometimes excluded, some always, some never
TablesVary == /\ \E e \in AllExprs : \A n \in AsgNames : ~Included(e, AsgSet(n))
              /\ \E e \in AllExprs : \A n \in AsgNames : Included(e, AsgSet(n))
              /\ \E e \in AllExprs : Included(e, {"a"}) /\ ~Included(e, {"b"}) /\ ~Included(e, {}) /\ ~Included(e, {"a", "b"})
ASSUME TablesVary

-----------------------------------------------------------------------------
(* Export: every case with the contract's expectation and the model's predicted header *)
Emit ==
  IF pc = "done"
  THEN PrintT(<<"CASE", ToJson([expr |-> expr, shape |-> shape, nl |-> nl, fmt |-> fmt,
                               boiler |-> BoilerLines(shape),
                               expect |-> [gen |-> TRUE, verbatim |-> TRUE, incl |-> Table(expr)],
                               predicted |-> lines])>>)
  ELSE TRUE
=============================================================================
