------------------------------- MODULE Header -------------------------------
(***************************************************************************)
(* C17 -- generated-file marker, boilerplate-file and mock-build-tags.    *)
(*                                                                         *)
(* Code-shaped layer: the header block of the two built-in templates      *)
(* (internal/mock_testify.templ:1-12, internal/mock_matryer.templ:1-12 --  *)
(* the same text), one action per section of that block, with the white-   *)
(* space trimming of the {{- ... }} actions spelled out, followed by the   *)
(* formatter (template_generator.go:189-200).  The state is the sequence   *)
(* of line classes of HeaderContract.tla.                                  *)
(*                                                                         *)
(*   raw text = L1 \n L2 \n L3                                             *)
(*              [ \n <content of boilerplate-file, verbatim> ]             *)
(*              [ \n \n //go:build <expr> ]                                *)
(*              \n \n package <name> ...                                   *)
(*                                                                         *)
(* TLC checks on every case that the header the model produces satisfies   *)
(* Go's rules (marker found by the ast.IsGenerated rule, boilerplate a     *)
(* contiguous block, the go/build rule includes the file exactly when the  *)
(* CONTRACT's truth table says so) and exports every case with the         *)
(* contract's expectation; the harness replays a sample through the        *)
(* binary and asks the toolchain.                                          *)
(***************************************************************************)
EXTENDS HeaderImpl

CONSTANTS Tags, MaxDepth,        \* build expressions: ExprsUpTo(Tags, MaxDepth), and "not set"
          Shapes,                \* boilerplate shapes (see BoilerLines), "none" = boilerplate-file not set
          Formatters,
          Templates, Placements, PathKinds, Spellings,  \* observation / spelling dimensions (no influence on the expectation)
          TdLevels,              \* where the two template-data keys are written: package level, package level over a DIFFERENT
                                 \* top-level default (the header reads the package-effective value: most specific wins), top level only
          SrcShapes,             \* one interface / two interfaces sharing the file / a method-less interface (no imports at all)
          SrcConstraints,        \* build constraint of the source file that declares the interfaces (HeaderContract!SrcCons)
          Sizes,                 \* byte size class of the "many lines" boilerplates (just above 4 KiB, 64 KiB, 1 MiB)
          FsStates               \* directory entries next to the config file named like bare tags / templates / the boilerplate file

VARIABLES expr, shape, nl, fmt,  \* the case
          pc, lines              \* template execution

vars == <<expr, shape, nl, fmt, pc, lines>>

ASSUME PrintT(<<"OBSDIMS", ToJson([templ |-> Templates, place |-> Placements, pathkind |-> PathKinds, spelling |-> Spellings,
                                   tdlevel |-> TdLevels, fs |-> FsStates, srcshape |-> SrcShapes, size |-> Sizes,
                                   srccons |-> SrcConstraints])>>)

\* the platforms the toolchain is asked on and the source-file constraints of the world, with the world facts the
\* contract layer computes for them (is the source file part of the build on platform v)
ASSUME SrcConstraints \subseteq SrcConsNames
ASSUME \A s \in SrcConstraints : SrcVisibleToMockery(s)                                 \* mockery can see every source file on the host
ASSUME \A s \in SrcConstraints \ {"none"} : \E v \in EnvNames : ~SrcIncluded(s, v)         \* every constraint excludes the source file somewhere
ASSUME PrintT(<<"ENVS", ToJson([host |-> HostEnv,
                                envs |-> [v \in EnvNames |-> [goos |-> Env(v).goos, goarch |-> Env(v).goarch, extra |-> Env(v).extra]],
                                srccons |-> [s \in SrcConstraints |-> [expr |-> SrcCons(s).expr, style |-> SrcCons(s).style,
                                                                      mockerytags |-> MockeryTags(s),
                                                                      incl |-> [v \in EnvNames |-> SrcIncluded(s, v)]]]])>>)

AllExprs == ExprsUpTo(Tags, MaxDepth)

Init ==
  /\ expr \in AllExprs \cup {NoExpr}
  /\ shape \in Shapes
  /\ nl \in (IF shape = "none" THEN {FALSE} ELSE BOOLEAN)     \* trailing newline at the end of the boilerplate file
  /\ fmt \in Formatters
  /\ pc = "marker" /\ lines = << >>

\* lines 1-3 of the template
EmitMarker ==
  /\ pc = "marker" /\ pc' = "boilerplate"
  /\ lines' = MarkerPart
  /\ UNCHANGED <<expr, shape, nl, fmt>>
\* {{- if boilerplate-file}} \n {{ readFile }} {{- end}} : a newline, then the bytes of the file.
\* A trailing newline of the file terminates its last line; what follows starts with a newline of its own,
\* which then shows as one more blank line.
EmitBoilerplate ==
  /\ pc = "boilerplate" /\ pc' = "buildtag"
  /\ lines' = lines \o BoilerPart(shape, nl)
  /\ UNCHANGED <<expr, shape, nl, fmt>>
\* {{- if mock-build-tags}} \n\n //go:build X {{- end}}
EmitBuildTag ==
  /\ pc = "buildtag" /\ pc' = "package"
  /\ lines' = lines \o BuildTagPart(expr)
  /\ UNCHANGED <<expr, shape, nl, fmt>>
\* \n\n package X
EmitPackage ==
  /\ pc = "package" /\ pc' = "format"
  /\ lines' = lines \o PackagePart
  /\ UNCHANGED <<expr, shape, nl, fmt>>

Format ==
  /\ pc = "format" /\ pc' = "done"
  /\ lines' = Formatted(fmt, lines)
  /\ UNCHANGED <<expr, shape, nl, fmt>>

Next == EmitMarker \/ EmitBoilerplate \/ EmitBuildTag \/ EmitPackage \/ Format
Spec == Init /\ [][Next]_vars

\* CONTRACT, per expression: platform -> assignment -> included (exported once per expression, not per case)
ASSUME \A e \in AllExprs \cup {NoExpr} : PrintT(<<"EXPRENV", ToJson([expr |-> e, inclenv |-> TableEnv(e)])>>)
\* ... and it does not depend on the platform: the expressions mention user tags only
ASSUME \A e \in AllExprs \cup {NoExpr} : \A v \in EnvNames : TableEnv(e)[v] = Table(e)

-----------------------------------------------------------------------------
(* Impl => Contract: the header the templates produce, read with Go's rules, is what the property demands *)
ImplGen      == GeneratedByRule(lines)
ImplVerbatim == VerbatimByRule(lines, BoilerLines(shape))
ImplIncl     == [n \in AsgNames |-> IncludedByRule(lines, n)]

ImplInclEnv  == [v \in EnvNames |-> ImplIncl]       \* the modelled header mentions user tags only
ImplConforms == pc = "done" => RuleDecides(lines) /\ Demands(expr, ImplGen, ImplVerbatim, ImplIncl)
                                                  /\ DemandsEnv(expr, ImplGen, ImplVerbatim, ImplInclEnv)
\* the section-by-section execution is the pure operator HeaderImpl!Produced (used by the histories of HeaderHist.tla)
StepsArePure == pc = "done" => lines = Produced(expr, shape, nl, fmt)
\* the marker is the first line until the formatter runs (which may lift the constraint above it)
MarkerFirst  == pc \notin {"marker", "done"} => lines[1].c = "marker"
OneConstraint == pc = "done" => Cardinality(BuildLines(lines)) = (IF expr.op = "none" THEN 0 ELSE 1)
\* the contract's table is not trivial: some expression is sometimes excluded, some always, some never
TablesVary == /\ \E e \in AllExprs : \A n \in AsgNames : ~Included(e, AsgSet(n))
              /\ \E e \in AllExprs : \A n \in AsgNames : Included(e, AsgSet(n))
              /\ \E e \in AllExprs : Included(e, {"a"}) /\ ~Included(e, {"b"}) /\ ~Included(e, {}) /\ ~Included(e, {"a", "b"})
ASSUME TablesVary

-----------------------------------------------------------------------------
(* Export: every case with the contract's expectation and the model's predicted header *)
Emit ==
  IF pc = "done"
  THEN PrintT(<<"CASE", ToJson([expr |-> expr, shape |-> shape, nl |-> nl, fmt |-> fmt,
                               boiler |-> CapRuns(BoilerLines(shape)),
                               expect |-> [gen |-> TRUE, verbatim |-> TRUE, incl |-> Table(expr)],
                               predicted |-> CapRuns(lines)])>>)
  ELSE TRUE
=============================================================================
