--------------------------- MODULE MatryerConcLin ---------------------------
(***************************************************************************)
(* C05, code -> spec: small concurrent histories recorded by               *)
(* drivers/concdrv/stress on freshly generated matryer mocks (per          *)
(* goroutine invoke/return events, globally ordered by one atomic stamp)   *)
(* must be LINEARIZABLE with respect to the sequential call-log semantics  *)
(* of MatryerMock (a call appends its record, MCalls() returns the log,    *)
(* resets empty their target): between its invoke and its return every     *)
(* operation takes effect at one instant (internal action Lin), and what   *)
(* the operation returned is what the sequential mock returns there.       *)
(* ResetCalls is NOT required to be one atomic step over all methods: C05  *)
(* asks for no race / no lost, duplicated or torn record, and the mock has *)
(* one lock per method, so ResetCalls takes effect per method, each at its *)
(* own instant between invoke and return (any order).                      *)
(* TLC searches all placements of the Lin steps; a history is accepted iff *)
(* some placement consumes all its events.  A record is identified by the  *)
(* code all its fields decode to (-1: fields from different calls).        *)
(***************************************************************************)
EXTENDS Naturals, Integers, Sequences, FiniteSets, TLC, Json

Trace == ndJsonDeserialize("trace.ndjson")
Methods == {"A", "B"}
Gs == 1..3

VARIABLES llog,    \* method -> sequence of record codes   (sequential mock state)
          pend,    \* g -> [st, what, m, id, out]
          l
lvars == <<llog, pend, l>>

Idle == [st |-> "idle", what |-> "", m |-> "", id |-> 0, out |-> << >>, todo |-> {}]
Ev == Trace[l]
Hi(n) == TLCSet(1, IF TLCGet(1) > n THEN TLCGet(1) ELSE n)

LinInit == /\ llog = [m \in Methods |-> << >>]
           /\ pend = [g \in Gs |-> Idle]
           /\ l = 1
           /\ TLCSet(1, 0)

Reset == /\ l <= Len(Trace) /\ Ev.op = "reset"
         /\ \A g \in Gs : pend[g].st = "idle"
         /\ llog' = [m \in Methods |-> << >>]
         /\ pend' = [g \in Gs |-> Idle]
         /\ l' = l + 1 /\ Hi(l)

Invoke == /\ l <= Len(Trace) /\ Ev.op = "inv"
          /\ pend[Ev.g].st = "idle"
          /\ pend' = [pend EXCEPT ![Ev.g] = [st |-> "inv", what |-> Ev.what, m |-> Ev.m, id |-> Ev.id, out |-> << >>,
                                                 todo |-> IF Ev.what = "resetall" THEN Methods ELSE {}]]
          /\ l' = l + 1 /\ Hi(l)
          /\ UNCHANGED llog

\* the sequential semantics (MatryerMock: Call appends one record, ReadCalls returns the log, resets empty their target)
Lin(g) == /\ pend[g].st = "inv"
          /\ LET p == pend[g] IN
             CASE p.what = "call"     -> /\ llog' = [llog EXCEPT ![p.m] = Append(@, p.id)]
                                         /\ pend' = [pend EXCEPT ![g].st = "lin"]
               [] p.what = "read"     -> /\ pend' = [pend EXCEPT ![g].st = "lin", ![g].out = llog[p.m]]
                                         /\ UNCHANGED llog
               [] p.what = "resetm"   -> /\ llog' = [llog EXCEPT ![p.m] = << >>]
                                         /\ pend' = [pend EXCEPT ![g].st = "lin"]
               [] p.what = "resetall" -> \E m \in p.todo :          \* one method's records at a time
                                         /\ llog' = [llog EXCEPT ![m] = << >>]
                                         /\ pend' = [pend EXCEPT ![g].todo = @ \ {m},
                                                                  ![g].st = IF p.todo = {m} THEN "lin" ELSE "inv"]
          /\ UNCHANGED l

Return == /\ l <= Len(Trace) /\ Ev.op = "ret"
          /\ pend[Ev.g].st = "lin"
          /\ pend[Ev.g].what = "read" => Ev.recs = pend[Ev.g].out
          /\ pend' = [pend EXCEPT ![Ev.g] = Idle]
          /\ l' = l + 1 /\ Hi(l)
          /\ UNCHANGED llog

\* after all goroutines were joined: the logs read sequentially
Final == /\ l <= Len(Trace) /\ Ev.op = "final"
         /\ \A g \in Gs : pend[g].st = "idle"
         /\ \A m \in Methods : Ev.logs[m] = llog[m]
         /\ l' = l + 1 /\ Hi(l)
         /\ UNCHANGED <<llog, pend>>

LinNext == Reset \/ Invoke \/ Return \/ Final \/ \E g \in Gs : Lin(g)
LinSpec == LinInit /\ [][LinNext]_lvars

Consumed == TLCGet(1)
TraceAccepted == PrintT(<<"CONSUMED", Consumed, Len(Trace)>>) /\ Consumed = Len(Trace)
=============================================================================
