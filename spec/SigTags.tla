------------------------------ MODULE SigTags ------------------------------
(***************************************************************************)
(* C02 -- the mock implements the interface AS THE CONFIGURED BUILD TAGS   *)
(* SELECT IT.  The package under test declares the interface twice, in a   *)
(* file constrained by `//go:build vx` (variant "full") and in one         *)
(* constrained by `//go:build !vx` (variant "lite"); a third file          *)
(* (`//go:build o1`) only adds an unrelated declaration.  `build-tags` is  *)
(* a list of 0..MaxTags distinct tags in any order.                        *)
(* CONTRACT: the source interface is the declaration of the file whose     *)
(* constraint holds under the SET of configured tags.                      *)
(* CODE-SHAPED (internal/parse.go NewParser): one `-tags` build flag with  *)
(* the comma-joined list; the go command honours the LAST -tags flag only. *)
(***************************************************************************)
EXTENDS Naturals, Sequences, FiniteSets, TLC, Json

CONSTANT MaxTags
VARIABLE tags

TagNames == {"vx", "o1", "o2"}
NoDup(s) == \A i, j \in 1..Len(s) : i # j => s[i] # s[j]
TagLists == {s \in UNION {[1..k -> TagNames] : k \in 0..MaxTags} : NoDup(s)}
SetOf(s) == {s[i] : i \in 1..Len(s)}

(* ---- contract ---- *)
Variant(s) == IF "vx" \in SetOf(s) THEN "full" ELSE "lite"
ExtraFileActive(s) == "o1" \in SetOf(s)

(* ---- code-shaped ---- *)
BuildFlags(s) == IF Len(s) > 0 THEN << [flag |-> "-tags", list |-> s] >> ELSE << >>     \* one flag, every tag
EffectiveTags(flags) == IF flags = << >> THEN {} ELSE SetOf(flags[Len(flags)].list)       \* go: the last -tags wins
ImplVariant(s) == IF "vx" \in EffectiveTags(BuildFlags(s)) THEN "full" ELSE "lite"

Init == tags \in TagLists
Next == UNCHANGED tags
Spec == Init /\ [][Next]_tags

ImplMatchesContract == ImplVariant(tags) = Variant(tags)
Emit == PrintT(<<"TAGS", ToJson([tags |-> tags, expect |-> [variant |-> Variant(tags), extra |-> ExtraFileActive(tags)]])>>)
=============================================================================
