----------------------------- MODULE TaggerTrace -----------------------------
(***************************************************************************)
(* Trace validation for C20: the op log of every replay (what the harness  *)
(* did to a scratch repository, what it then OBSERVED with git, and for    *)
(* every invocation of the real `tools tag` binary its flag and exit       *)
(* class) must be a behaviour of the contract.  Many replays are           *)
(* concatenated, separated by `reset` events.                              *)
(*                                                                         *)
(* Every event carries the complete observation after the step:            *)
(*   obs = [tags : name -> [c, k, id, sane], head, dirty, gitclean, other] *)
(* dirty = the work-tree class whose status (computed in TaggerWorktree)   *)
(* equals what `git status` printed, gitclean = git printed nothing but    *)
(* ignored paths;                                                          *)
(* c = index of the peeled commit, k = "light"/"annotated", id = token of  *)
(* the object the ref points at (0 for a lightweight tag, a per-replay     *)
(* serial number per distinct tag object otherwise), sane = git's own view *)
(* (`git show-ref --tags -d`) agrees with the objects, other = digest of   *)
(* everything else observed (branches, HEAD's symbolic target, remote      *)
(* refs, stash, work-tree files, status, config, the env file).            *)
(* The harness' own steps are checked for sanity (a mismatch there is a    *)
(* machinery error); only `run` events are judged by RunContract.          *)
(***************************************************************************)
EXTENDS TaggerContract, Sequences, TLC, Json

Trace == ndJsonDeserialize("trace.ndjson")

VARIABLES st,   \* tracked repository state: [tags, head, dirty, version, other, n]
          l     \* next event

tvars == <<st, l>>
Ev == Trace[l]
\* git's own verdict (`gitclean`: the status lists nothing but ignored paths) is recorded with every observation,
\* independently of the class the status was matched to; the two must agree with TaggerWorktree.tla
ObsOK(o) == o.gitclean = Clean(o.dirty)
IsEvent(e) == l <= Len(Trace) /\ Trace[l].op = e /\ ObsOK(Trace[l].obs) /\ l' = l + 1

Obs(version, n) == [tags |-> Ev.obs.tags, head |-> Ev.obs.head, dirty |-> Ev.obs.dirty,
                    version |-> version, other |-> Ev.obs.other, n |-> n]

Ids(tg) == {tg[x].id : x \in DOMAIN tg}

TraceInit == st = [tags |-> << >>, head |-> 1, dirty |-> "clean", version |-> "", other |-> "", n |-> 1] /\ l = 1

Reset == /\ IsEvent("reset")
         /\ DOMAIN Ev.obs.tags = {} /\ Ev.obs.head \in 1..Ev.n /\ Ev.obs.dirty = "clean"
         /\ Ev.version \in DOMAIN ReqTable
         /\ st' = Obs(Ev.version, Ev.n)

Commit == /\ IsEvent("commit")
          /\ Ev.obs.head = st.n + 1
          /\ SameTags(Ev.obs.tags, st.tags)
          /\ st.dirty \in WtNames /\ Ev.obs.dirty = WtClass(WtAfterCommit(st.dirty))
          /\ st' = Obs(st.version, st.n + 1)

Checkout == /\ IsEvent("checkout")
            /\ Ev.c \in 1..st.n /\ Ev.obs.head = Ev.c
            /\ SameTags(Ev.obs.tags, st.tags) /\ Ev.obs.dirty = st.dirty
            /\ st' = Obs(st.version, st.n)

UserTag == /\ IsEvent("usertag")
           /\ Ev.name \notin DOMAIN st.tags /\ Ev.name \in DOMAIN NameTable
           /\ DOMAIN Ev.obs.tags = DOMAIN st.tags \cup {Ev.name}
           /\ \A x \in DOMAIN st.tags : Ev.obs.tags[x] = st.tags[x]
           /\ Ev.obs.tags[Ev.name].c = (IF Ev.kind = "tree" THEN 0 ELSE st.head)
           /\ Ev.obs.tags[Ev.name].k = Ev.kind /\ Ev.obs.tags[Ev.name].sane
           /\ IF Ev.kind \in {"light", "tree"} THEN Ev.obs.tags[Ev.name].id = 0
              ELSE Ev.obs.tags[Ev.name].id \notin Ids(st.tags) \cup {0}
           /\ Ev.obs.head = st.head /\ Ev.obs.dirty = st.dirty /\ Ev.obs.other = st.other
           /\ st' = Obs(st.version, st.n)

\* `git tag name src` with src an annotated tag: both refs point at the SAME tag object
Alias == /\ IsEvent("alias")
         /\ Ev.name \notin DOMAIN st.tags /\ Ev.name \in DOMAIN NameTable /\ Ev.src \in DOMAIN st.tags
         /\ st.tags[Ev.src].k = "annotated"
         /\ DOMAIN Ev.obs.tags = DOMAIN st.tags \cup {Ev.name}
         /\ \A x \in DOMAIN st.tags : Ev.obs.tags[x] = st.tags[x]
         /\ Ev.obs.tags[Ev.name] = st.tags[Ev.src]
         /\ Ev.obs.head = st.head /\ Ev.obs.dirty = st.dirty /\ Ev.obs.other = st.other
         /\ st' = Obs(st.version, st.n)

\* a branch / remote-tracking ref named like a tag: no tag, HEAD commit, work tree changes; "everything else" does
Branch == /\ IsEvent("branch")
          /\ SameTags(Ev.obs.tags, st.tags) /\ Ev.obs.head = st.head /\ Ev.obs.dirty = st.dirty
          /\ Ev.obs.other # st.other
          /\ st' = Obs(st.version, st.n)

Touch == /\ IsEvent("touch")
         /\ st.dirty = "clean" /\ Ev.kind \in WtNames
         /\ Ev.obs.dirty = WtClass(Ev.kind) /\ Ev.obs.gitclean = Clean(Ev.kind)
         /\ SameTags(Ev.obs.tags, st.tags) /\ Ev.obs.head = st.head
         /\ st' = Obs(st.version, st.n)

\* the maintainer writes another VERSION into mockery-tools.env (kept outside the work tree)
Bump == /\ IsEvent("bump")
        /\ Ev.version \in DOMAIN ReqTable
        /\ SameTags(Ev.obs.tags, st.tags) /\ Ev.obs.head = st.head /\ Ev.obs.dirty = st.dirty
        /\ st' = Obs(Ev.version, st.n)

\* one invocation of the real binary, judged by the contract
Run == /\ IsEvent("run")
       /\ Ev.flag \in {"absent", "true", "false"}
       /\ Ev.exit \in {"ok", "nothing", "error"}
       /\ RunContract(st, Ev.flag, Obs(st.version, st.n), Ev.exit)
       /\ st' = Obs(st.version, st.n)

TraceNext == Reset \/ Commit \/ Checkout \/ UserTag \/ Alias \/ Branch \/ Touch \/ Bump \/ Run

TraceSpec == TraceInit /\ [][TraceNext]_tvars

TagsWellFormed == \A x \in DOMAIN st.tags : x \in DOMAIN NameTable

Consumed == TLCGet("stats").diameter - 1
TraceAccepted == PrintT(<<"CONSUMED", Consumed, Len(Trace)>>) /\ Consumed = Len(Trace)
=============================================================================
