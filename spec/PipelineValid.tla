--------------------------- MODULE PipelineValid ---------------------------
(***************************************************************************)
(* C09, second half: valid-but-unusual inputs.  "mockery never terminates   *)
(* by an unrecovered panic on any input, including any compilable Go source *)
(* and any syntactically valid go.mod", and a run over valid input exits 0  *)
(* with every configured mock written.                                      *)
(*                                                                         *)
(* A source package is a sequence of DECLARATION KINDS (the harness turns   *)
(* each into Go text; anchors: internal/parse.go:62-108 scope lookup of     *)
(* discovered type names, internal/node_visitor.go).  The contract only     *)
(* says which declarations are package-level named interface types of a     *)
(* file the build includes -- those must be mocked under `all: true`;       *)
(* whether mockery also mocks the "may" kinds is C07's business, not        *)
(* checked here.                                                            *)
(***************************************************************************)
EXTENDS Integers, Sequences, FiniteSets, TLC, Json, Randomization

CONSTANTS NFuzz,      \* configuration value-class worlds replayed (0: all positions x all value kinds)
          MaxLen,     \* exhaustive: all sequences of kinds up to this length
          NRandom,    \* plus this many random sequences ...
          RandomLen   \* ... of this length

\* RECURSIVE TYPE SHAPES ("any compilable Go source"): every tool that walks go/types structurally (imports of a method
\* scope, type-parameter lists, replace-type, name collection) meets cycles here -- TypeParam -> constraint -> TypeParam,
\* Named -> underlying -> Named, interface -> method signature -> the interface itself.  All are legal Go and all
\* declare a package-level interface that must be mocked:
\*   type-parameter constraints in terms of the parameter itself (named generic constraint, inline interface literal,
\*   a cycle across two parameters, the pointer-method idiom [T any, PT interface{ *T; M() }], a constraint embedding
\*   comparable, [S ~[]E, E interface{ Less(E) bool }]);
\*   recursive named types used in a signature (type R []R, struct with *N / []N fields, func type of itself, map / chan
\*   of itself, a generic struct holding its own instance);
\*   interfaces whose methods mention the interface itself, two mutually recursive interfaces, a generic interface
\*   returning its own instance, an interface embedding a generic interface instantiated with itself
RecursiveKinds == {"rec-constraint-named", "rec-constraint-inline", "rec-constraint-mutual", "rec-constraint-pointer-core",
                   "rec-constraint-embedded-comparable", "rec-constraint-slice-elem",
                   "rec-named-slice-in-sig", "rec-struct-in-sig", "rec-functype-in-sig", "rec-map-chan-in-sig", "rec-generic-struct-in-sig",
                   "rec-iface-self-method", "rec-iface-mutual", "rec-generic-self-instance", "rec-iface-embeds-generic-of-self"}
\* package-level named interfaces in files the build includes: must be mocked
MustKinds == {"iface", "generic", "grouped", "embed-std", "embed-local", "embed-inst", "empty", "unexported",
              "anon-params", "chan-func-params", "sort-like", "unicode", "line-directive", "rare-syntax",
              "tag-on", "shadowed-by-local", "struct-shadowed-by-local-iface-plus-iface",
              \* hand-written or third-party-generated source files carrying a generated-code header
              "iface-in-generated-file", "iface-in-generated-file-blockcomment", "iface-in-go123-syntax-file",
              \* //line directives in every position a generator (goyacc, ragel, protoc plugins) puts them: BEFORE the
              \* package clause (relative / absolute target, existing / missing target file), block form, mid-file
              "line-before-package-rel", "line-before-package-abs", "line-before-package-existing", "line-block-before-package",
              "line-mid-file", "line-goyacc-output"}
             \cup RecursiveKinds
\* no package-level interface of that name exists in an included file: nothing to mock, must not crash
NoneKinds == {"struct", "functype", "local", "local-blank", "blank", "local-in-lit", "local-in-method",
              "local-in-generic-func", "local-shadows-struct", "tag-off", "ignored-file", "test-file", "init-funcs", "goos-file",
              \* aliases and defined types whose right-hand side is not an interface type
              "alias-struct-lit", "alias-func", "alias-pointer", "alias-map", "alias-chan-of-iface", "alias-slice-inst",
              "alias-basic", "alias-struct-inst", "defined-over-struct-inst"}
\* package-level, denotes an interface type, but is an ALIAS (of an interface literal, of an instantiated generic
\* interface, of another alias, of a foreign or predeclared interface) or a defined type over such a type, or a
\* constraint interface: whether mockery mocks it is not this property's question -- that it neither crashes on it
\* nor fails the run is
MayKinds == {"inst", "alias", "constraint",
             "alias-iface-lit", "alias-embed-lit", "alias-inst", "alias-inst2", "alias-of-alias", "alias-foreign-iface",
             "alias-any", "alias-error", "defined-over-foreign-iface", "defined-over-local-iface"}
Kinds == MustKinds \cup NoneKinds \cup MayKinds

\* kinds that involve a function-local type declaration (defect D7 lived here)
LocalKinds == {"local", "local-blank", "local-in-lit", "local-in-method", "local-in-generic-func", "local-shadows-struct",
               "shadowed-by-local", "struct-shadowed-by-local-iface-plus-iface"}

AliasKinds == {"alias", "alias-iface-lit", "alias-embed-lit", "alias-inst", "alias-inst2", "alias-of-alias", "alias-foreign-iface",
               "alias-any", "alias-error", "alias-struct-lit", "alias-func", "alias-pointer", "alias-map", "alias-chan-of-iface",
               "alias-slice-inst", "alias-basic", "alias-struct-inst"}

GoModSpellings == {"plain", "tab", "quoted", "comment", "block", "block-comment", "crlf",
                   "module-last", "v2", "many-directives"}
\* "any syntactically valid go.mod" is more than spellings of the module line: the go.mod that governs the OUTPUT
\* directory may be a nested one (a directory cut out of the enclosing module) and need not have a module directive
NoModuleShapes == {"empty", "whitespace-only", "comment-only", "go-only", "toolchain-only", "require-only", "replace-only",
                   "exclude-only", "retract-only", "bom-module"}
WithModuleShapes == {"module-plain", "module-last", "module-v2", "module-crlf", "module-quoted", "module-block", "module-only-no-go"}
Layouts == {"sep", "inpkg"}
\* how the package's interfaces are selected: all: true / the must-declarations listed by name / only the anchor
\* listed (the unusual declarations are in the package but NOT selected: they are still parsed)
Selects == {"all", "named", "none"}
PkgShapes == {"only-test-files", "no-interfaces", "all-files-tagged-off", "only-ignored-files", "doc-only-file"}

\* null / empty sections of the configuration file at every level, and the free-form _anchors section
\* (defects repaired by 19f6a9e and 0272621 lived here): all are valid YAML for the documented schema
CfgShapes == {"package-null", "pkg-config-null", "interfaces-null", "interfaces-empty", "iface-null", "iface-config-null",
              "configs-null", "configs-empty", "configs-null-entry", "configs-null-entry-among-entries",
              "root-template-data-null", "pkg-template-data-null", "iface-template-data-null",
              "anchors-nonempty", "anchors-nested", "anchors-empty", "anchors-null", "yaml-anchor-merge",
              \* look like the conflict classes but are not: equal after templating / the same URL twice / packages that
              \* share their NAME but write to their own files (each mock from its own package's interface)
              "pkgname-equal-after-templating", "same-template-url-twice", "same-name-packages-own-files"}
CfgShapeWorlds == {[kind |-> "cfgshape", decls |-> <<"iface">>, select |-> "all", spelling |-> "plain", layout |-> "sep", shape |-> s, ctx |-> x] :
                     s \in CfgShapes, x \in {"alone", "among"}}

\* every single kind under every selection mode; longer sequences under all: true
DeclWorlds == {[kind |-> "decls", decls |-> d, select |-> x, spelling |-> "plain", layout |-> "sep", shape |-> "-", ctx |-> "-"] :
                 d \in [1..1 -> Kinds], x \in Selects}
              \cup {[kind |-> "decls", decls |-> d, select |-> "all", spelling |-> "plain", layout |-> "sep", shape |-> "-", ctx |-> "-"] :
                      d \in UNION {[1..k -> Kinds] : k \in 2..MaxLen}}
RandomDeclWorlds == IF NRandom = 0 THEN {}
                    ELSE {[kind |-> "decls", decls |-> d, select |-> RandomElement(Selects), spelling |-> "plain", layout |-> "sep",
                           shape |-> "-", ctx |-> "-"] : d \in RandomSubset(NRandom, [1..RandomLen -> Kinds])}
GoModWorlds == {[kind |-> "gomod", decls |-> <<"iface">>, select |-> "all", spelling |-> s, layout |-> l, shape |-> "-", ctx |-> "-"] :
                  s \in GoModSpellings, l \in Layouts}
PkgShapeWorlds == {[kind |-> "pkgshape", decls |-> <<>>, select |-> "all", spelling |-> "plain", layout |-> "sep", shape |-> s, ctx |-> x] :
                     s \in PkgShapes, x \in {"alone", "among"}}
\* CONFIGURATION VALUE CLASSES: every position of the configuration tree (top level, package, package config, interface,
\* interface config, configs entry, and inside the map-valued parameters) holding a value of every YAML kind.  Most
\* combinations are invalid input; the statement's last sentence applies to all of them: never an unrecovered panic
\* (the exit status is left open, a non-zero one needs a diagnostic).
CfgPositions == {"root.all", "root.dir", "root.filename", "root.pkgname", "root.structname", "root.template", "root.formatter",
                 "root.force-file-write", "root.template-data", "root.template-data.unroll-variadic", "root.exclude-subpkg-regex",
                 "root.include-interface-regex", "root.exclude-interface-regex", "root.recursive", "root.build-tags", "root.log-level",
                 "root._anchors", "root.replace-type", "root.replace-type.pkg", "root.replace-type.pkg.type",
                 "root.replace-type.pkg.type.pkg-path", "root.template-schema", "root.require-template-schema-exists", "root.config",
                 "root.packages", "pkg", "pkg.config", "pkg.config.all", "pkg.config.dir", "pkg.config.template-data",
                 "pkg.config.recursive", "pkg.config.exclude-subpkg-regex", "pkg.config.replace-type", "pkg.interfaces",
                 "iface", "iface.config", "iface.config.structname", "iface.config.template-data", "iface.configs",
                 "entry", "entry.structname", "entry.force-file-write", "entry.template-data"}
                \cup \* every key of the built-in templates' schema at every level
                {l \o ".template-data." \o k : l \in {"root", "pkg.config", "iface.config", "entry"},
                                                k \in {"unroll-variadic", "boilerplate-file", "mock-build-tags"}}
\* the map-valued parameters, at every level and every depth of nesting
ConfigLevels == {"root", "pkg.config", "iface.config", "entry"}
MapPositions == {l \o sfx : l \in ConfigLevels, sfx \in {".replace-type", ".replace-type.pkg", ".replace-type.pkg.type", ".template-data"}}
                \cup {"root._anchors"}
ValueKinds == {"null", "string", "empty-string", "int", "float", "bool", "empty-list", "list-of-strings", "list-of-null",
               "empty-map", "map", "nested-map", "templated-string"}
FuzzAll == {[kind |-> "cfgfuzz", decls |-> <<"iface">>, select |-> "all", spelling |-> "plain", layout |-> "sep", shape |-> "-", ctx |-> "-",
             pos |-> p, val |-> v, other |-> "-"] : p \in CfgPositions \cup MapPositions, v \in ValueKinds}
\* LEVEL CROSSING for the map-valued parameters: the odd value at one level WHILE the levels above (resp. below) hold a
\* conforming non-empty value for the same key -- the merge of the levels meets null / empty / non-empty on either side
FuzzCross == {[kind |-> "cfgfuzz", decls |-> <<"iface">>, select |-> "all", spelling |-> "plain", layout |-> "sep", shape |-> "-", ctx |-> "-",
               pos |-> p, val |-> v, other |-> o] :
                p \in MapPositions, v \in {"null", "empty-map", "map", "list-of-null"}, o \in {"higher-nonempty", "lower-nonempty"}}
FuzzWorld(p, v) == [kind |-> "cfgfuzz", decls |-> <<"iface">>, select |-> "all", spelling |-> "plain", layout |-> "sep", shape |-> "-", ctx |-> "-",
                    pos |-> p, val |-> v, other |-> "-"]
\* quick: every position with one value kind drawn at random, and every value kind at NFuzz positions drawn at random
CfgFuzzWorlds == FuzzCross \cup
                 IF NFuzz = 0 THEN FuzzAll
                 ELSE {FuzzWorld(p, RandomElement(ValueKinds)) : p \in CfgPositions \cup MapPositions}
                      \cup UNION {{FuzzWorld(p, v) : p \in RandomSubset(NFuzz, CfgPositions \cup MapPositions)} : v \in ValueKinds}
\* the configuration FILE as text: not YAML at all, YAML of the wrong shape, odd but legal encodings
CfgTextShapes == {"tabs-indent", "duplicate-keys", "empty-file", "only-comment", "garbage", "list-at-top", "scalar-at-top", "bom",
                  "crlf", "undefined-alias", "multi-document", "deep-nesting", "nul-byte", "huge-scalar", "recursive-alias"}
CfgTextWorlds == {[kind |-> "cfgtext", decls |-> <<"iface">>, select |-> "all", spelling |-> "plain", layout |-> "sep", shape |-> s, ctx |-> "-"] :
                    s \in CfgTextShapes}
\* the environment (MOCKERY_<PARAM> is a documented configuration source; config.go:176-197 converts bool look-alikes)
EnvKeys == {"ALL", "DIR", "FORCE_FILE_WRITE", "RECURSIVE", "PACKAGES", "TEMPLATE_DATA", "LOG_LEVEL", "CONFIG", "EXCLUDE_SUBPKG_REGEX",
            "REQUIRE_TEMPLATE_SCHEMA_EXISTS", "FORMATTER", "NO_SUCH_PARAMETER"}
EnvValues == {"empty", "true", "TRUE", "False", "maybe", "number", "json-map", "list", "spaces", "templated"}
EnvAll == {[kind |-> "envfuzz", decls |-> <<"iface">>, select |-> "all", spelling |-> "plain", layout |-> "sep", shape |-> "-", ctx |-> "-",
            pos |-> k, val |-> v] : k \in EnvKeys, v \in EnvValues}
EnvWorlds == IF NFuzz = 0 THEN EnvAll ELSE {[kind |-> "envfuzz", decls |-> <<"iface">>, select |-> "all", spelling |-> "plain", layout |-> "sep",
                                             shape |-> "-", ctx |-> "-", pos |-> k, val |-> RandomElement(EnvValues)] : k \in EnvKeys}
\* the command line
CliShapes == {"config-missing", "config-is-dir", "unknown-flag", "no-config-anywhere", "log-level-bogus", "extra-positional-arg",
              "config-flag-empty", "config-unreadable-yaml-dir-entry"}
CliMustFail == {"config-missing", "config-is-dir", "unknown-flag", "no-config-anywhere"}
CliWorlds == {[kind |-> "cli", decls |-> <<"iface">>, select |-> "all", spelling |-> "plain", layout |-> "sep", shape |-> s, ctx |-> "-"] : s \in CliShapes}
\* SIZE: "every configured mock was generated and written" with hundreds of mocks, files and packages in one run
ManyShapes == {"300-interfaces-one-file", "150-interfaces-150-files", "40-packages"}
ManyWorlds == {[kind |-> "many", decls |-> <<>>, select |-> "all", spelling |-> "plain", layout |-> "sep", shape |-> s, ctx |-> "-"] : s \in ManyShapes}

\* nested go.mod of each shape in the output directory; the module's own go.mod without a module directive
NestedGoModWorlds == {[kind |-> "gomod-nested", decls |-> <<"iface">>, select |-> "all", spelling |-> "plain", layout |-> "sep", shape |-> s, ctx |-> "-"] :
                        s \in NoModuleShapes \cup WithModuleShapes}
RootNoModuleWorlds == {[kind |-> "gomod-root-nomodule", decls |-> <<"iface">>, select |-> "all", spelling |-> "plain", layout |-> "sep", shape |-> s, ctx |-> "-"] :
                         s \in {"empty", "comment-only", "go-only"}}
Worlds == EnvWorlds \cup CfgFuzzWorlds \cup CfgTextWorlds \cup CliWorlds \cup ManyWorlds \cup NestedGoModWorlds \cup RootNoModuleWorlds \cup DeclWorlds \cup RandomDeclWorlds \cup GoModWorlds \cup PkgShapeWorlds \cup CfgShapeWorlds

\* CONTRACT: a valid world succeeds, and every must-declaration is mocked (1-based positions in decls)
MustPositions(wd) == IF wd.select = "none" THEN {} ELSE {i \in 1..Len(wd.decls) : wd.decls[i] \in MustKinds}
\* the destination package path cannot be determined without a module directive: a diagnostic and a non-zero exit,
\* never a crash; with one (wherever it stands in the file) the run succeeds
PathUndeterminable(wd) == \/ wd.kind = "gomod-nested" /\ wd.shape \in NoModuleShapes
                          \/ wd.kind = "gomod-root-nomodule"
ExitOpen(wd) == wd.kind \in {"cfgfuzz", "cfgtext", "envfuzz"} \/ (wd.kind = "cli" /\ wd.shape \notin CliMustFail)
Expectation(wd) == [exit |-> IF ExitOpen(wd) THEN "any"
                             ELSE IF PathUndeterminable(wd) \/ wd.kind = "cli" THEN "nonzero" ELSE "zero", panic |-> FALSE,
                    must |-> IF PathUndeterminable(wd) \/ ExitOpen(wd) \/ wd.kind = "cli" THEN {} ELSE MustPositions(wd),
                    \* a configured package that contributes no interface is not an error
                    anything_written |-> (wd.kind # "pkgshape" \/ wd.ctx = "among")]

VARIABLE w
Init == w \in Worlds
Next == UNCHANGED w
Spec == Init /\ [][Next]_w

Emit == PrintT(<<"VCASE", ToJson([world |-> w, expect |-> Expectation(w),
                                  has_local |-> (\E i \in 1..Len(w.decls) : w.decls[i] \in LocalKinds),
                                  has_alias |-> (\E i \in 1..Len(w.decls) : w.decls[i] \in AliasKinds),
                                  has_recursive |-> (\E i \in 1..Len(w.decls) : w.decls[i] \in RecursiveKinds)])>>)
=============================================================================
