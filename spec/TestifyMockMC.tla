---------------------------- MODULE TestifyMockMC ----------------------------
(* Signature classes for TestifyMock.tla (cfg files cannot spell records).
   gen: the interface is generic (type parameter K in place of string).
   names: parameter names written into the source interface (the variadic parameter last); they matter only
   to the template (identifier capture), not to the model.  Kinds: string int bool | ptr slice map func chan
   iface any error.  vk: element kind of the variadic parameter or "none".  nm: number of methods (all of the
   class's signature). *)
EXTENDS TestifyMock

C(id, names, pk, vk, rk, unroll, nm) ==
  [id |-> id, names |-> names, pk |-> pk, vk |-> vk, rk |-> rk, unroll |-> unroll, nm |-> nm, gen |-> FALSE, rn |-> << >>]
\* rn: names of the results (empty: unnamed results)
CR(id, names, pk, vk, rk, rn, unroll, nm) == [C(id, names, pk, vk, rk, unroll, nm) EXCEPT !.rn = rn]
\* generic interface I[K comparable, V any]: every "string" position is written K, every "any" position V in the
\* source; instantiated with [string, interface{}]
CG(id, names, pk, vk, rk, unroll, nm) == [C(id, names, pk, vk, rk, unroll, nm) EXCEPT !.gen = TRUE]

\* one variadic shape under the three settings
Tri(id, names, pk, vk, rk) ==
  {C(id \o "t", names, pk, vk, rk, "true", 1), C(id \o "f", names, pk, vk, rk, "false", 1), C(id \o "u", names, pk, vk, rk, "unset", 1)}

QuickClasses ==
  { C("n00", << >>, << >>, "none", << >>, "unset", 1),
    C("n01", <<"a">>, <<"string">>, "none", <<"int">>, "unset", 1),
    C("n02", <<"ok", "ret", "run">>, <<"bool", "int", "string">>, "none", <<"int", "error">>, "unset", 1),
    C("n03", <<"args", "returnFunc", "_a0">>, <<"string", "int", "string">>, "none", << >>, "unset", 1),
    C("n04", <<"e", "r", "x">>, <<"error", "iface", "any">>, "none", <<"iface", "ptr", "error">>, "unset", 1),
    C("n05", <<"p", "s", "mp">>, <<"ptr", "slice", "map">>, "none", <<"slice", "map">>, "unset", 1),
    C("n06", <<"fn", "ch">>, <<"func", "chan">>, "none", <<"func", "chan">>, "unset", 1),
    C("n07", <<"m", "_m", "_c">>, <<"string", "string", "string">>, "none", <<"string", "string", "string">>, "unset", 1),
    C("n08", <<"x", "y">>, <<"int", "int">>, "none", <<"error", "int">>, "unset", 1),
    C("n09", << >>, << >>, "none", <<"error">>, "unset", 1),
    C("n10", <<"mock">>, <<"string">>, "none", <<"any">>, "unset", 1),
    C("n11", <<"x">>, <<"string">>, "none", <<"int">>, "unset", 2),
    C("n12", <<"a">>, <<"int">>, "none", <<"string", "error", "ptr">>, "unset", 1),
    C("n14", <<"e", "x">>, <<"error", "any">>, "none", << >>, "unset", 1),
    CR("n15", <<"Run", "Return", "RunAndReturn">>, <<"string", "int", "bool">>, "none", <<"int", "error">>, <<"ok", "run">>, "unset", 1),
    C("n16", <<"Call", "On">>, <<"nslice", "struct">>, "none", <<"nslice", "struct", "map">>, "unset", 1),
    CG("g03", <<"k", "v">>, <<"string", "any">>, "none", <<"any", "string">>, "unset", 1),
    CG("g04u", <<"k", "vs">>, <<"string">>, "any", <<"any">>, "unset", 1),
    C("n13", <<"a", "_">>, <<"any", "bool">>, "none", <<"bool">>, "true", 1),
    CG("g01", <<"k", "n">>, <<"string", "int">>, "none", <<"string", "error">>, "unset", 1),
    CG("g02u", <<"n", "ks">>, <<"int">>, "string", <<"string">>, "unset", 1),
    CG("g02t", <<"n", "ks">>, <<"int">>, "string", <<"string">>, "true", 1),
    C("v05t", <<"variadicArgs", "i", "a", "vs">>, <<"string", "int", "int">>, "int", <<"int">>, "true", 1),
    C("v06u", <<"a", "vs">>, <<"string">>, "string", <<"int", "error">>, "unset", 1),
    C("v06t", <<"a", "vs">>, <<"string">>, "string", <<"int", "error">>, "true", 1),
    C("v07f", <<"a", "rest">>, <<"iface">>, "any", <<"ptr", "error">>, "false", 1),
    C("v08u", <<"n", "ps">>, <<"int">>, "ptr", << >>, "unset", 1),
    C("v08t", <<"n", "ps">>, <<"int">>, "ptr", << >>, "true", 1) }
  \cup Tri("v01", <<"a", "vs">>, <<"string">>, "string", <<"int">>)
  \cup Tri("v02", <<"vs">>, << >>, "string", << >>)
  \cup Tri("v03", <<"args">>, << >>, "any", <<"error">>)
  \cup Tri("v04", <<"ok", "ret">>, <<"bool">>, "any", <<"ptr">>)

\* classes on which several expectations are played against each other in the quick tier
QuickPairClasses == {c \in QuickClasses : c.id \in {"n00", "n01", "n02", "n11", "v01t", "v01u", "v02f", "v03t"}}

\* thorough: the quick classes plus a product of shapes
Kinds3 == {<<"string", "ptr", "error">>, <<"any", "int", "slice">>, <<"iface", "map", "bool">>}
ThoroughExtra ==
  { C("t1" \o ToString(n) \o ToString(r), [i \in 1..n |-> "q" \o ToString(i)],
      [i \in 1..n |-> <<"string", "error", "ptr">>[i]], "none",
      [i \in 1..r |-> <<"error", "any", "int">>[i]], "unset", 1) : n \in 0..3, r \in 0..3 }
  \cup { C("t2" \o ToString(n) \o ToString(r), [i \in 1..n |-> "q" \o ToString(i)],
      [i \in 1..n |-> <<"any", "int", "slice">>[i]], "none",
      [i \in 1..r |-> <<"ptr", "error", "string">>[i]], "unset", 1) : n \in 1..3, r \in 1..3 }
  \cup { C("t3" \o ToString(n) \o ToString(r), [i \in 1..n |-> "q" \o ToString(i)],
      [i \in 1..n |-> <<"iface", "map", "bool">>[i]], "none",
      [i \in 1..r |-> <<"map", "iface", "error">>[i]], "unset", 2) : n \in 1..3, r \in 1..2 }
  \cup UNION { Tri("t4" \o ToString(n) \o ToString(r), [i \in 1..(n + 1) |-> "w" \o ToString(i)],
      [i \in 1..n |-> <<"string", "error">>[i]], "string",
      [i \in 1..r |-> <<"error", "ptr">>[i]]) : n \in 0..2, r \in 0..2 }
  \cup UNION { Tri("t5" \o ToString(n) \o ToString(r), [i \in 1..(n + 1) |-> "w" \o ToString(i)],
      [i \in 1..n |-> <<"ptr", "any">>[i]], "any",
      [i \in 1..r |-> <<"string", "error">>[i]]) : n \in 0..2, r \in 0..2 }
  \cup UNION { Tri("t6" \o ToString(n), [i \in 1..(n + 1) |-> "w" \o ToString(i)],
      [i \in 1..n |-> <<"int", "int">>[i]], "ptr", <<"iface">>) : n \in 0..2 }

ThoroughClasses == QuickClasses \cup ThoroughExtra

\* the classes of a run are printed (<<"CLASS", json>>) so that the harness materialises exactly them
ASSUME EmitClasses
ASSUME \A c \in QuickPairClasses : PrintT(<<"PAIR", ToJson(c.id)>>)
\* classes on which other instances of the mock share the TestingT
MultiClasses == {c \in QuickClasses : c.id \in {"n00", "n01", "n04", "n11", "g01", "v01t", "v02u", "v06u"}}
ASSUME \A c \in MultiClasses : PrintT(<<"MULTI", ToJson(c.id)>>)
\* classes explored with the wide (Level 2) alphabets in the thorough tier
WideClasses == {c \in QuickClasses : c.vk = "none" \/ c.id \in {"v01t", "v01u", "v03f", "v04t", "v07f", "v08u", "g02u"}}
ASSUME \A c \in WideClasses : PrintT(<<"WIDE", ToJson(c.id)>>)
(* Configuration WORLD: the unroll-variadic setting reaches a mock from other levels than the interface's own entry.
   Packages of ONE config file: "par" (recursive: true, template-data unroll-variadic: true), its sub-package "sub"
   that is ALSO listed explicitly, without template-data, and the unrelated package "sib" without template-data;
   nothing at top level.  The effective setting of an interface is the most specific level that sets it (C08:
   interface entry, package, recursive ancestor, top level) and nothing else: what a sibling, a descendant or an
   unrelated package sets never reaches it.  Every variadic class is placed in every package, with an interface-level
   entry only where the inherited setting is not the class's own; the mock generated there must behave as the class
   (eff = the class's unroll). *)
CfgTop == "unset"
CfgPkgs == { [name |-> "par", parent |-> "",    recursive |-> TRUE,  td |-> "true"],
             [name |-> "sub", parent |-> "par", recursive |-> FALSE, td |-> "unset"],
             [name |-> "sib", parent |-> "",    recursive |-> FALSE, td |-> "unset"] }
CfgPkg(n) == CHOOSE p \in CfgPkgs : p.name = n
CfgEffective(p, itd) ==
  IF itd # "unset" THEN itd
  ELSE IF p.td # "unset" THEN p.td
  ELSE IF p.parent # "" /\ CfgPkg(p.parent).recursive /\ CfgPkg(p.parent).td # "unset" THEN CfgPkg(p.parent).td
  ELSE CfgTop
CfgPlace(c, p) ==
  LET inh == CfgEffective(p, "unset") IN
  IF inh = c.unroll THEN {[class |-> c.id, pkg |-> p.name, itd |-> "unset", eff |-> inh]}
  ELSE IF c.unroll # "unset" THEN {[class |-> c.id, pkg |-> p.name, itd |-> c.unroll, eff |-> CfgEffective(p, c.unroll)]}
  ELSE {}
CfgPlaces == UNION {CfgPlace(c, p) : c \in {x \in ThoroughClasses : x.vk # "none"}, p \in CfgPkgs}
ASSUME \A x \in CfgPlaces : PrintT(<<"CFGPLACE", ToJson(x)>>)
ASSUME \A p \in CfgPkgs : PrintT(<<"CFGPKG", ToJson(p)>>)
\* classes whose variadic elements can be slice look-alikes (Mode = "look")
LookClasses == {c \in ThoroughClasses : HasSliceLikes(c.vk)}
ASSUME \A c \in LookClasses : PrintT(<<"LOOK", ToJson(c.id)>>)
=============================================================================
