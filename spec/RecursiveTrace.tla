--------------------------- MODULE RecursiveTrace ---------------------------
(* Trace validation for the recursive half of C07 (and the Initialize half of C06): the InitPkg / Recursive /
   Exclude / Inject hook events of a real run (config/config.go:341-408), projected per world, must be accepted
   by the CONTRACT of Recursive.tla.  The contract does not care in which order packages are visited or
   expanded; it tracks which packages are in the table and whose settings they carry, and at the end of every
   Initialize pass demands  Src(k) \in AllowedSrc(k)  for every node.
   Events:  reset {W}; begin; initpkg {k}; recursive {k}; exclude {a, k}; inject {a, k, existed}; end.
   Nodes are indices into W (the harness maps package paths to nodes; an unknown path is node 0). *)
EXTENDS Recursive

Trace == ndJsonDeserialize("trace.ndjson")
VARIABLES l,        \* next event
          src,      \* node -> node whose settings it carries (0 = not in the package table)
          seen,     \* packages visited by loop 1 of the current pass
          atBegin   \* packages in the table when the current pass began
tvars == <<W, pk, pc, pass, pending, recq, l, src, seen, atBegin>>

Ev == Trace[l]
IsEvent(e) == l <= Len(Trace) /\ Trace[l].op = e /\ l' = l + 1
InTable == {k \in 1..W.n : src[k] # 0}
Keep == UNCHANGED <<pk, pass, pending, recq>>

TraceInit == /\ W = EmptyWorld /\ pk = << >> /\ pc = "done" /\ pass = 1 /\ pending = {} /\ recq = << >>
             /\ l = 1 /\ src = <<0>> /\ seen = {} /\ atBegin = {}

TReset == /\ IsEvent("reset") /\ pc = "done"
          /\ W' = Ev.W
          /\ src' = [k \in 1..Ev.W.n |-> IF Ev.W.on[k] THEN k ELSE 0]
          /\ seen' = {} /\ atBegin' = {} /\ pc' = "idle" /\ Keep

TBegin == /\ IsEvent("begin") /\ pc = "idle"
          /\ seen' = {} /\ atBegin' = InTable /\ pc' = "loop1"
          /\ UNCHANGED <<W, src>> /\ Keep

\* every package of the table is visited (merged with the top level) once per pass
TInitPkg == /\ IsEvent("initpkg") /\ pc \in {"loop1", "loop2"}
            /\ Ev.k \in InTable /\ Ev.k \notin seen
            /\ seen' = seen \cup {Ev.k}
            /\ UNCHANGED <<W, src, atBegin, pc>> /\ Keep

\* only a package of the table whose (inherited) settings say recursive is expanded
TRecursive == /\ IsEvent("recursive") /\ pc \in {"loop1", "loop2"}
              /\ Ev.k \in InTable /\ CRec(src[Ev.k])
              /\ pc' = "loop2"
              /\ UNCHANGED <<W, src, seen, atBegin>> /\ Keep

\* an exclusion has no effect on the table; whether it was right is decided at `end`
TExclude == /\ IsEvent("exclude") /\ pc = "loop2"
            /\ Ev.a \in InTable /\ Ev.k \in Sub(Ev.a)
            /\ UNCHANGED <<W, src, seen, atBegin, pc>> /\ Keep

\* injection: a package already in the table keeps its settings, a new one gets the injecting package's
TInject == /\ IsEvent("inject") /\ pc = "loop2"
           /\ Ev.a \in InTable /\ Ev.k \in Sub(Ev.a)
           /\ Ev.existed = (Ev.k \in InTable)
           /\ src' = IF Ev.existed THEN src ELSE [src EXCEPT ![Ev.k] = src[Ev.a]]
           /\ UNCHANGED <<W, seen, atBegin, pc>> /\ Keep

\* C07: after Initialize the table is exactly what the statement says
TEnd == /\ IsEvent("end") /\ pc \in {"loop1", "loop2"}
        /\ atBegin \subseteq seen
        /\ \A k \in 1..W.n : src[k] \in AllowedSrc(k)
        /\ pc' = "idle"
        /\ UNCHANGED <<W, src, seen, atBegin>> /\ Keep

TFin == /\ IsEvent("fin") /\ pc = "idle"
        /\ pc' = "done"
        /\ UNCHANGED <<W, src, seen, atBegin>> /\ Keep

TraceNext == TReset \/ TBegin \/ TInitPkg \/ TRecursive \/ TExclude \/ TInject \/ TEnd \/ TFin
TraceSpec == TraceInit /\ [][TraceNext]_tvars

Consumed == TLCGet("stats").diameter - 1
TraceAccepted == PrintT(<<"CONSUMED", Consumed, Len(Trace)>>) /\ Consumed = Len(Trace)
=============================================================================
