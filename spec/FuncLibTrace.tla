--------------------------- MODULE FuncLibTrace ---------------------------
(* Trace validation for C16: an op log {fn, args, reply} recorded from probe templates run by the   *)
(* real mockery binary (mock-template route and templated-config-value route) must be accepted by   *)
(* the contract of FuncLib.tla: every logged reply equals Expect(fn, args) for the functions whose   *)
(* semantics the specification owns (exported, firstIsLower, case functions, arithmetic, and the    *)
(* TLA+ definitions of the stdlib wrappers), satisfies ShapeOK for camelcase/snakecase/kebabcase/   *)
(* randInt, and is unconstrained only where the contract is undefined (zero divisors, min of       *)
(* nothing).  The log also carries inputs TLC did not enumerate (longer strings, larger ints,       *)
(* every golint initialism in several spellings): their expected values are computed here.          *)
EXTENDS FuncLib

Trace == ndJsonDeserialize("trace.ndjson")
VARIABLE l
tvars == <<fn, args, phase, reply, l>>

Ev == Trace[l]

TraceInit == /\ l = 1
             /\ fn = "none" /\ args = << >> /\ phase = "call" /\ reply = [t |-> "none"]

\* one logged application; a reply the contract does not accept matches no action: rejected there
TraceNext == /\ l <= Len(Trace)
             /\ Ev.fn \in Documented
             /\ Accepts(Ev.fn, Ev.args, Ev.reply)
             /\ fn' = Ev.fn /\ args' = Ev.args /\ reply' = Ev.reply /\ phase' = "done"
             /\ l' = l + 1

TraceSpec == TraceInit /\ [][TraceNext]_tvars

Consumed == TLCGet("stats").diameter - 1
TraceAccepted == PrintT(<<"CONSUMED", Consumed, Len(Trace)>>) /\ Consumed = Len(Trace)
=============================================================================
