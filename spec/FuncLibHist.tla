---------------------------- MODULE FuncLibHist ----------------------------
(***************************************************************************)
(* C16, history dimension.  The documented functions are functions OF      *)
(* THEIR ARGUMENTS: a reply may not depend on what the same process /      *)
(* template execution evaluated before (package-level caches, memo tables, *)
(* lazily initialised or sorted tables, reused result buffers), on being   *)
(* the first call of the process, or change after it was handed out.       *)
(*                                                                         *)
(*   h     the applications made so far in ONE fresh process, in order,    *)
(*         each with the reply of the code-shaped layer (which is          *)
(*         stateless: ImplCall)                                            *)
(*   Pure  contract: every reply in every history equals Expect(fn, args)  *)
(*                                                                         *)
(* TLC enumerates the histories  <<a, b>> (same function, every ordered    *)
(* pair of look-alike argument tuples incl. a = b) and <<a, x, b>> (the    *)
(* same with an application of ANOTHER function interleaved) and exports   *)
(* each with the expected reply of every step.  The harness runs each      *)
(* history in its own process, binds every reply to a template variable,   *)
(* prints it at once AND again after the last step (reference vs copy).    *)
(***************************************************************************)
EXTENDS FuncLib

CONSTANT HTier          \* "quick" | "thorough"

VARIABLE h
hvars == <<fn, args, phase, reply, h>>

A(f, a) == [fn |-> f, args |-> a]
Str1(F, X) == {A(f, <<S(x)>>) : f \in F, x \in X}
Str2(F, XY) == {A(f, <<S(xy[1]), S(xy[2])>>) : f \in F, xy \in XY}
Ints(F, XS) == {A(f, [i \in 1..Len(xs) |-> I(xs[i])]) : f \in F, xs \in XS}

\* look-alikes: same letters in another case, same first argument with another subject and vice versa
Words == {<<>>, <<"a", "b">>, <<"A", "b">>, <<"A", "B">>, <<"i", "d">>, <<"I", "d">>, <<"dli", "d">>, <<"ee", "a">>}
PairArgs == {<<<<"a">>, <<"a", "b">>>>, <<<<"a">>, <<"b", "a">>>>, <<<<"b">>, <<"a", "b">>>>, <<<<>>, <<"a", "b">>>>,
             <<<<"ee">>, <<"ee", "a">>>>}
Pool ==
       Str1({"exported", "firstIsLower", "firstUpper", "firstLower", "lower", "upper", "camelcase", "snakecase",
             "kebabcase", "trimSpace", "quoteMeta", "base", "clean", "dir"}, Words)
  \cup Str2({"contains", "hasPrefix", "hasSuffix", "trimPrefix", "trimSuffix", "trim", "trimLeft", "trimRight",
             "split", "splitAfter"}, PairArgs)
  \cup Str2({"matchString"}, {<<<<>>, <<"a">>>>, <<<<"a">>, <<"a">>>>, <<<<"a">>, <<"b">>>>, <<<<"b">>, <<"b">>>>,
                              <<<<".">>, <<>>>>, <<<<".">>, <<"a">>>>})
  \cup {A("splitAfterN", <<S(<<"a">>), I(n), S(s)>>) : n \in {-1, 0, 1}, s \in {<<"a", "b", "a">>, <<"b", "a", "b">>}}
  \cup {A("replace", <<S(<<"a">>), S(new), I(n), S(<<"a", "a">>)>>) : new \in {<<"b">>, <<>>}, n \in {-1, 1}}
  \cup {A("replaceAll", <<S(old), S(<<"b">>), S(<<"a", "ee", "a">>)>>) : old \in {<<"a">>, <<"ee">>, <<>>}}
  \cup {A("join", <<S(sep), L(el)>>) : sep \in {<<>>, <<"-">>}, el \in {<<<<"a">>, <<"b">>>>, <<<<"b">>, <<"a">>>>}}
  \cup Ints({"add", "sub", "mul", "div", "mod", "min"}, {<<1, 2>>, <<2, 1>>, <<-3, 2>>, <<3>>, <<3, 2, 2>>})
  \cup Ints({"incr", "decr"}, {<<1>>, <<-1>>, <<0>>})
  \cup {A(f, <<Q(q)>>) : f \in {"ceil", "floor", "round"}, q \in {-6, 2, 6}}
  \cup Str1({"expandEnv"}, {<<"$", "V">>, <<"$", "a">>, <<"$", "{", "V", "}">>, <<>>})
  \cup Str1({"getenv"}, {<<"V">>, <<"a">>, <<>>})
  \cup {A("readFile", <<P(p)>>) : p \in {"", "file"}}
  \cup {A("randInt", << >>)}

\* interleaved applications of another function (cheap, total, touch different tables)
Inter == {A("exported", <<S(<<"u", "r", "l">>)>>), A("matchString", <<S(<<"b">>), S(<<"a">>)>>),
          A("split", <<S(<<>>), S(<<"ee", "xff">>)>>), A("add", <<I(7), I(-7)>>)}

Step(app) == [fn |-> app.fn, args |-> app.args, reply |-> ImplCall(app.fn, app.args)]

HInit == /\ h = << >>
         /\ fn = "none" /\ args = << >> /\ phase = "call" /\ reply = [t |-> "none"]

Allowed(app) ==
  CASE Len(h) = 0 -> app \in Pool
    [] Len(h) = 1 -> (app \in Pool /\ app.fn = h[1].fn) \/ (HTier = "thorough" /\ app \in Inter /\ app.fn # h[1].fn)
    [] Len(h) = 2 -> h[2].fn # h[1].fn /\ app \in Pool /\ app.fn = h[1].fn
    [] OTHER -> FALSE

HCall == \E app \in Pool \cup Inter :
           /\ Allowed(app)
           /\ h' = Append(h, Step(app))
           /\ fn' = app.fn /\ args' = app.args /\ reply' = ImplCall(app.fn, app.args) /\ phase' = "done"

HSpec == HInit /\ [][HCall]_hvars

\* CONTRACT: replies are functions of the arguments, whatever came before
Pure == \A i \in DOMAIN h : Sat(h[i].reply, Expect(h[i].fn, h[i].args))

Complete == (Len(h) = 2 /\ h[1].fn = h[2].fn) \/ Len(h) = 3
JStep(st) == [fn |-> st.fn, args |-> [i \in 1..Len(st.args) |-> JArg(st.args[i])],
              expect |-> JArg(Expect(st.fn, st.args)), oracle |-> Table[st.fn].oracle, rot |-> Table[st.fn].rot]
HEmit == Complete => PrintT(<<"HIST", ToJson([steps |-> [i \in 1..Len(h) |-> JStep(h[i])]])>>)
=============================================================================
