--------------------------- MODULE ReplaceTypeMC ---------------------------
(* Model constants for ReplaceType.tla. *)
EXTENDS ReplaceType

MCPositions  == {"param", "result", "both", "unnamed", "qualparam", "variadic", "ptr", "slice", "map", "chan",
                 "func", "mixed", "viaalias", "viathird", "tparam", "targ", "tparamreal"}
MCOthers     == {"none", "parambefore", "paramafter", "twinparam", "methodbefore", "methodafter", "ifaceU", "ifaceT"}
MCSrcKinds   == {"named", "alias"}
MCTargets    == {"named", "alias", "samename", "dstpkg"}
MCLevels     == {"root", "pkg", "iface", "entry", "entry2", "entry2x", "entry2y", "iface2x", "iface2y"}
MCPlacements == {"separate", "inpkg"}
MCTemplates  == {"testify", "matryer", "probe"}
MCListings   == {"min", "I1", "all"}
MCFormatters == {"goimports", "gofmt", "noop"}
MCKinds      == {"ss", "si", "sm", "bp", "is"}
MCAll        == {}
=============================================================================
