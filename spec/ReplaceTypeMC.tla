--------------------------- MODULE ReplaceTypeMC ---------------------------
(* Model constants for ReplaceType.tla. *)
EXTENDS ReplaceType

MCPositions  == {"param", "result", "both", "unnamed", "qualparam", "variadic", "ptr", "slice", "map", "chan",
                 "func", "mixed", "viaalias", "viathird", "tparam", "targ", "tparamreal"}
MCOthers     == {"none", "parambefore", "paramafter", "twinparam", "methodbefore", "methodafter", "ifaceU", "ifaceT", "embedded", "twinmapped"}
MCSrcKinds   == {"named", "alias"}
MCTargets    == {"named", "alias", "samename", "dstpkg", "samepkg"}
MCLevels     == {"root", "pkg", "iface", "entry", "entry2", "entry2x", "entry2y", "iface2x", "iface2y", "over_pi", "over_re"}
MCPlacements == {"separate", "inpkg"}
MCTemplates  == {"testify", "matryer", "probe"}
MCListings   == {"min", "I1", "all"}
MCFormatters == {"goimports", "gofmt", "noop"}
MCKinds      == {"ss", "si", "sm", "bp", "is"}
MCExtras     == {"none", "unused"}      \* further replace-type entries for types that occur nowhere: no effect, no import
MCTdOpts     == {"plain", "opts"}       \* other template-data of the templates (stub-impl, with-resets / unroll-variadic)
MCVis        == {"exp", "unexp", "unexpreach"}   \* visibility of a replacement type that lives in the mock's own package
MCDstStates  == {"clean", "pending"}             \* a separate destination package that does not type-check until the mock is written
MCAll        == {}
=============================================================================
