------------------------------ MODULE Pipeline ------------------------------
(***************************************************************************)
(* C09 / C10 -- one `mockery` run after the configuration is resolved.     *)
(*                                                                         *)
(*   internal/cmd/mockery.go  RootApp.Run            (per-file loop 309-376,*)
(*                            missing accounting 378-397, Append 134-170)   *)
(*   internal/template_generator.go  Generate        (4 stages 463-506)     *)
(*   internal/parse.go        ParsePackages          (load errors 45-61)    *)
(*   config/config.go         NewRootConfig/Initialize/ParseTemplates       *)
(*                                                                         *)
(* A WORLD (variable w, chosen in Init, never changed) is what the harness  *)
(* materialises: for each output file its initial state on disk and its     *)
(* effective force-file-write, at most one fault, and whether some listed   *)
(* interface is missing from the source.  A fault is either                 *)
(*   kind "stage":  one file fails at one step of the per-file pipeline     *)
(*                  (template, schema, exec, format: natural faults;        *)
(*                   mkdir, stat, write: failpoints),                       *)
(*   kind "shared": one cause (a template / schema / template-data that     *)
(*                  several output files share) makes that stage fail for   *)
(*                  every one of those files, or                            *)
(*   kind "input":  one of the invalid-input classes of C09 placed at a     *)
(*                  configuration level, on the first/last package, alone   *)
(*                  or among valid packages.                                *)
(*                                                                         *)
(* Two layers over the same variables:                                      *)
(*   CONTRACT   operators MustKeep / AnyFailure / AllowedFinal / ExpectExit *)
(*              and the invariants / action properties at the bottom.  The  *)
(*              expectation exported with every case is computed by them.   *)
(*              It does not say whether a run stops at the first failing    *)
(*              file or goes on: a file that could have been written may    *)
(*              end up old or new whenever anything else failed.            *)
(*   CODE SHAPE one action per critical section of Run(): the pre-loop      *)
(*              phases (load, init, parse, select, resolve, collect), the   *)
(*              per-file loop in nondeterministic order (Go map range) with *)
(*              steps template, schema, exec, format, mkdir, stat, write,   *)
(*              the missing-interface accounting and the exit status.  The  *)
(*              real code returns at the first failing file                 *)
(*              (StopAtFailure = TRUE); the other value is a legitimate     *)
(*              refactor the contract must also accept.                     *)
(* No known deviation at present (D16 was repaired by ad32862); `deviated`   *)
(* stays as the hook for the next one.                                      *)
(***************************************************************************)
EXTENDS Integers, Sequences, FiniteSets, TLC, Json

CONSTANTS Files,          \* sequence of output-file ids in sorted package order, e.g. <<"f1","f2","f3">>
          Worlds,         \* set of world records explored (built in PipelineMC)
          StopAtFailure   \* TRUE: return at the first failing file (what the code does)

VARIABLES w,          \* the world
          pc,         \* "pre" | "loop" | "file" | "done"
          ph,         \* index of the next pre-loop phase
          pending,    \* files not yet begun           (Go map range: any order)
          cur,        \* file being produced, or "-"
          step,       \* index into Steps of the next step of cur
          oks,        \* stages of cur that completed
          fs,         \* path -> "ABSENT" | "DIR" | content
          written,    \* files written by this run
          failed,     \* files at which a step failed
          anyfail,    \* some file failed (only relevant when ~StopAtFailure)
          exit,       \* -1 while running, else the exit status
          order,      \* files in the order they were begun (observation)
          deviated    \* a known-deviation disjunct was taken (observation)

vars == <<w, pc, ph, pending, cur, step, oks, fs, written, failed, anyfail, exit, order, deviated>>
view == <<w, pc, ph, pending, cur, step, oks, fs, written, failed, anyfail, exit, deviated>>

FileSet   == {Files[i] : i \in 1..Len(Files)}
StageSet  == {"template", "schema", "exec", "format"}
Points    == {"mkdir", "stat", "write"}
Steps     == <<"template", "schema", "exec", "format", "mkdir", "stat", "write">>
InitStates == {"absent", "gen", "user", "dir"}
Phases    == <<"load", "init", "parse", "select", "resolve", "collect">>
Levels    == <<"root", "pkg", "iface", "entry">>

NoFault == [kind |-> "none", file |-> "-", files |-> {}, at |-> "-", class |-> "-", level |-> "-", pos |-> "-", ctx |-> "-", feature |-> "-"]
StageFault(f, s) == [kind |-> "stage", file |-> f, files |-> {f}, at |-> s, class |-> "-", level |-> "-", pos |-> "-", ctx |-> "-", feature |-> "-"]
\* one cause shared by several output files (they use the same custom template / schema / template-data): the
\* stage fails for EVERY file in S, whichever comes first and whether or not the run goes on after the first failure
SharedFault(S, s) == [kind |-> "shared", file |-> "*", files |-> S, at |-> s, class |-> "-", level |-> "-", pos |-> "-", ctx |-> "-", feature |-> "-"]
\* feature: an unusual-but-valid trait of the SAME package the fault sits in (a file excluded by GOOS suffix or build
\* tag, a test-only file, a //line directive, a generated-code header ...); "-" = none
InputFault(c, l, p, x, ft) == [kind |-> "input", file |-> "-", files |-> {}, at |-> "-", class |-> c, level |-> l, pos |-> p, ctx |-> x, feature |-> ft]
PkgFeatures == {"goos-file", "tools-tag-file", "ignored-file", "test-file", "line-directive", "generated-header", "cgo-free-generated"}

-----------------------------------------------------------------------------
(* Invalid-input classes of C09: at which configuration levels each can be written, and where the
   code detects it. *)
ClassLevels(c) ==
  CASE c \in {"unknown-template", "unknown-formatter", "unknown-key", "schema-data", "cyclic"} -> {"root", "pkg", "iface", "entry"}
    [] c \in {"include-regex", "exclude-regex", "subpkg-regex"} -> {"root", "pkg"}
    [] c \in {"unknown-key-pkgstruct"} -> {"pkg"}
    [] c \in {"unknown-key-ifacestruct"} -> {"iface"}
    [] c \in {"missing-iface"} -> {"iface"}
    [] c \in {"pkg-missing-all", "pkg-missing-regex", "pkg-missing-listed", "pkg-typeerr", "pkg-parseerr", "pkg-importerr"} -> {"pkg"}
    [] c \in {"conflict-srcpkg"} -> {"root", "pkg"}
    [] c \in {"conflict-pkgname", "conflict-template"} -> {"iface", "entry"}
    \* a cyclic value that every level below overrides, so that no mock uses it
    [] c \in {"cyclic-shadowed"} -> {"root", "pkg", "iface"}
    \* the module's go.mod / go.sum is incomplete but resolvable offline (a replace without its require line, a missing
    \* go.sum line for a cached module): under the go command's default -mod=readonly the package does not load
    [] c \in {"untidy-module"} -> {"pkg"}
InputClasses == {"unknown-template", "unknown-formatter", "unknown-key", "unknown-key-pkgstruct", "unknown-key-ifacestruct",
                 "schema-data", "cyclic", "include-regex", "exclude-regex", "subpkg-regex", "missing-iface",
                 "pkg-missing-all", "pkg-missing-regex", "pkg-missing-listed", "pkg-typeerr", "pkg-parseerr", "pkg-importerr",
                 "conflict-srcpkg", "conflict-pkgname", "conflict-template", "cyclic-shadowed", "untidy-module"}
\* the conflict classes come in spellings: packages that share their package NAME (and an interface name), pkgnames that
\* differ only in case, two different custom templates -- different source package PATHS / pkgnames / templates => error
ConflictFeatures(c) == CASE c = "conflict-srcpkg" -> {"-", "same-package-name"}
                         [] c = "conflict-pkgname" -> {"-", "case-only"}
                         [] c = "conflict-template" -> {"-", "two-custom-urls"}
                         [] OTHER -> {"-"}
UntidyFeatures == {"replace-without-require", "missing-gosum-line"}
PkgErrClasses == {"pkg-typeerr", "pkg-parseerr", "pkg-importerr"}

\* pre-loop phase in which the code reports the class ("-" : not before the loop)
PhaseOf(c) ==
  CASE c \in {"unknown-key", "unknown-key-pkgstruct", "unknown-key-ifacestruct"} -> "load"     \* config.go:215 ErrorUnused
    [] c = "subpkg-regex" -> "init"                                                               \* config.go:387 ShouldExcludeSubpkg
    [] c \in {"pkg-typeerr", "pkg-parseerr", "pkg-importerr", "untidy-module",
              "pkg-missing-all", "pkg-missing-regex", "pkg-missing-listed"} -> "parse"             \* parse.go:53-70 (a package that
                                                                                                  \* cannot be found is an error: ad32862)
    [] c \in {"include-regex", "exclude-regex"} -> "select"                                       \* config.go:524-539
    [] c = "cyclic" -> "resolve"                                                                  \* config.go:711-718
    [] c \in {"conflict-srcpkg", "conflict-pkgname", "conflict-template"} -> "collect"            \* mockery.go:147-166
    [] OTHER -> "-"
\* stage of the per-file pipeline at which the class surfaces ("-" : none)
StageOfClass(c) ==
  CASE c = "unknown-template" -> "template"      \* template_generator.go:370-373
    [] c = "schema-data" -> "schema"             \* template_generator.go:470-476
    [] c = "unknown-formatter" -> "format"       \* template_generator.go:199
    [] OTHER -> "-"
PkgMissing(c) == c \in {"pkg-missing-all", "pkg-missing-regex", "pkg-missing-listed"}
\* classes the code-shaped layer knowingly handles against the contract (none at present)
DeviationClasses == {}

First == Files[1]
Last  == Files[Len(Files)]
Victim(fl) == IF fl.pos = "first" THEN First ELSE Last
\* files whose package is configured in the world
Configured(wd) == IF wd.fault.kind = "input" /\ wd.fault.ctx = "alone" THEN {Victim(wd.fault)} ELSE FileSet
\* files that reach the per-file loop when nothing stops the run earlier (a package that cannot be loaded contributes none)
Collected(wd) == IF wd.fault.kind = "input" /\ PkgMissing(wd.fault.class) THEN Configured(wd) \ {Victim(wd.fault)} ELSE Configured(wd)
\* some listed interface is not found in the source
HasMissing(wd) == wd.missing \/ (wd.fault.kind = "input" /\ wd.fault.class \in {"missing-iface", "pkg-missing-listed"})

FaultyAt(wd, f, s) ==
  \/ wd.fault.kind = "stage" /\ wd.fault.file = f /\ wd.fault.at = s
  \/ wd.fault.kind = "shared" /\ f \in wd.fault.files /\ wd.fault.at = s
  \/ wd.fault.kind = "input" /\ StageOfClass(wd.fault.class) = s /\ (wd.fault.level = "root" \/ f = Victim(wd.fault))
  \* mockery.go:320  the package-level config of the file's source package is resolved at the top of the per-file loop:
  \* a cycle there is reported even when every mock overrides the parameter
  \/ wd.fault.kind = "input" /\ wd.fault.class = "cyclic-shadowed" /\ wd.fault.level = "pkg" /\ f = Victim(wd.fault) /\ s = "template"

-----------------------------------------------------------------------------
(* File system: designated output paths, their parent directories, and everything else in the tree. *)
Out(f) == <<"out", f>>
Dir(f) == <<"dir", f>>
Others == {<<"other", "source">>, <<"other", "unrelated">>, <<"other", "sentinel">>, <<"other", "config">>}
Designated == {Out(f) : f \in FileSet}
ParentDirs == {Dir(f) : f \in FileSet}
Paths == Designated \cup ParentDirs \cup Others

\* "appears": the path is absent when the run starts and user content shows up there WHILE the run is still retrieving that
\* file's template (another process, an editor, a checkout) -- strictly before anything was produced for it.  For the
\* existence check and the write, which come later, it is an existing file: the contract treats it as one.
OldValue(st) == CASE st = "absent" -> "ABSENT" [] st = "gen" -> "GEN" [] st \in {"user", "appears"} -> "USER" [] st = "dir" -> "DIR"
Fs0(wd) == [p \in Paths |->
              IF p \in Designated THEN OldValue(wd.fs0[p[2]])
              ELSE IF p \in ParentDirs THEN (IF wd.fs0[p[2]] = "absent" THEN "ABSENT" ELSE "DIR")
              ELSE "KEEP"]

-----------------------------------------------------------------------------
(* CONTRACT (properties C10 and C09 as functions of the world).                                     *)

\* most specific level that sets the parameter wins; unset everywhere: the documented default (false)
RECURSIVE EffFrom(_, _)
EffFrom(a, i) == IF i = 0 THEN FALSE
                 ELSE IF a[Levels[i]] = "T" THEN TRUE
                 ELSE IF a[Levels[i]] = "F" THEN FALSE
                 ELSE EffFrom(a, i - 1)
EffectiveForce(a) == EffFrom(a, Len(Levels))
LevelAssignments == [{"root", "pkg", "iface", "entry"} -> {"unset", "T", "F"}]

\* the run has no legitimate way of putting new content at Out(f):
\*   a step of f fails (FailedFileUntouched); something is there and force-file-write is off (NoClobber);
\*   a non-empty directory is there (replacing it would delete files the Frame condition protects)
MustKeep(wd, f) ==
  \/ \E s \in StageSet \cup Points : FaultyAt(wd, f, s)
  \/ wd.fs0[f] # "absent" /\ ~wd.force[f]
  \/ wd.fs0[f] = "dir"
\* every invalid-input class must surface as a failure (C09); a stage fault or a blocked file is one (C10)
AnyFailure(wd) ==
  \/ wd.fault.kind = "input"
  \/ \E f \in Configured(wd) : MustKeep(wd, f)
  \/ HasMissing(wd)
\* The statement lists "a cyclic templated value" among the inputs that fail, without saying it has to be in effect.
\* The code reports a shadowed cycle written at package level; one written at top level or at interface level (and
\* overridden by every package / every configs entry) is never resolved and the run succeeds.  The contract demands
\* failure where statement and code agree (package level) and leaves the other two placements open.
\* An untidy-but-resolvable module: the code refuses (the go command's default mode); a tool that resolved the imports
\* without writing would be as good.  Either way the Frame condition holds: go.mod and go.sum are not designated.
UndecidedInput(wd) == /\ wd.fault.kind = "input"
                      /\ \/ (wd.fault.class = "cyclic-shadowed" /\ wd.fault.level # "pkg")
                         \/ wd.fault.class = "untidy-module"
AllowedFinal(wd, f) ==
  IF f \notin Configured(wd) THEN {"old"}
  ELSE IF UndecidedInput(wd) THEN {"old", "new"}
  ELSE IF MustKeep(wd, f) THEN {"old"}
  ELSE IF AnyFailure(wd) THEN {"old", "new"}     \* the statement does not say whether the run goes on after a failure
  ELSE {"new"}
ExpectExit(wd) == IF UndecidedInput(wd) THEN "any" ELSE IF AnyFailure(wd) THEN "nonzero" ELSE "zero"
Expectation(wd) == [exit   |-> ExpectExit(wd),
                    final  |-> [f \in FileSet |-> AllowedFinal(wd, f)],
                    parents |-> {"same", "created"},           \* parent directories of designated paths may be created
                    others |-> {"same"},                       \* Frame: nothing else changes
                    configured |-> Configured(wd)]

-----------------------------------------------------------------------------
(* CODE-SHAPED MODEL *)

Init == /\ w \in Worlds
        /\ pc = "pre" /\ ph = 1
        /\ pending = {} /\ cur = "-" /\ step = 1 /\ oks = {}
        /\ fs = Fs0(w)
        /\ written = {} /\ failed = {} /\ anyfail = FALSE
        /\ exit = -1 /\ order = << >> /\ deviated = FALSE

Die == /\ exit' = 1 /\ pc' = "done" /\ cur' = "-"      \* logFatalErr: mockery.go:63-67

\* NewRootConfig (load, init), ParsePackages (parse), ShouldGenerateInterface (select), ParseTemplates (resolve),
\* InterfaceCollection.Append (collect): an invalid input detected here ends the run before any file is produced.
PrePhase ==
  /\ pc = "pre" /\ ph <= Len(Phases)
  /\ LET p == Phases[ph] IN
     IF w.fault.kind = "input" /\ PhaseOf(w.fault.class) = p
     THEN /\ Die /\ UNCHANGED <<w, ph, pending, step, oks, fs, written, failed, anyfail, order, deviated>>
     ELSE /\ LET last == ph = Len(Phases) \/ w.fault.kind # "input" IN      \* phases without an invalid input do nothing here
             /\ ph' = IF last THEN Len(Phases) + 1 ELSE ph + 1
             /\ IF last THEN pc' = "loop" /\ pending' = Collected(w) ELSE UNCHANGED <<pc, pending>>
          /\ deviated' = (deviated \/ (w.fault.kind = "input" /\ w.fault.class \in DeviationClasses))
          /\ UNCHANGED <<w, cur, step, oks, fs, written, failed, anyfail, exit, order>>

\* top of the per-file loop (mockery.go:309-338); NewTemplateGenerator -> findPkgPath creates the output directory
Begin(f) ==
  /\ pc = "loop" /\ f \in pending
  /\ pending' = pending \ {f} /\ cur' = f /\ step' = 1 /\ oks' = {}
  /\ order' = Append(order, f)
  /\ fs' = [fs EXCEPT ![Dir(f)] = "DIR"]
  /\ pc' = "file"
  /\ UNCHANGED <<w, ph, written, failed, anyfail, exit, deviated>>

FailFile ==
  /\ failed' = failed \cup {cur} /\ anyfail' = TRUE
  /\ IF StopAtFailure THEN Die /\ UNCHANGED pending
     ELSE pc' = "loop" /\ cur' = "-" /\ UNCHANGED <<exit, pending>>
  /\ UNCHANGED <<w, ph, step, oks, fs, written, order, deviated>>

NextStep == /\ step' = step + 1
            /\ UNCHANGED <<w, pc, ph, pending, cur, written, failed, anyfail, exit, order, deviated>>

\* Generate(): template retrieval, schema validation, template execution, formatting -- all in memory
Stage(s) ==
  /\ pc = "file" /\ Steps[step] = s /\ s \in StageSet
  /\ IF FaultyAt(w, cur, s) THEN FailFile
     ELSE oks' = oks \cup {s} /\ NextStep /\ UNCHANGED fs

\* mockery.go:347-353
Mkdir ==
  /\ pc = "file" /\ Steps[step] = "mkdir"
  /\ IF FaultyAt(w, cur, "mkdir") THEN FailFile
     ELSE fs' = [fs EXCEPT ![Dir(cur)] = "DIR"] /\ NextStep /\ UNCHANGED oks

\* mockery.go:355-367  existence check gated by force-file-write
Stat ==
  /\ pc = "file" /\ Steps[step] = "stat"
  /\ IF FaultyAt(w, cur, "stat") \/ (fs[Out(cur)] # "ABSENT" /\ ~w.force[cur]) THEN FailFile
     ELSE NextStep /\ UNCHANGED <<oks, fs>>

\* mockery.go:369-375  single WriteFile; fails on a directory
Write ==
  /\ pc = "file" /\ Steps[step] = "write"
  /\ IF FaultyAt(w, cur, "write") \/ fs[Out(cur)] = "DIR" THEN FailFile
     ELSE /\ fs' = [fs EXCEPT ![Out(cur)] = "NEW"]
          /\ written' = written \cup {cur}
          /\ pc' = "loop" /\ cur' = "-"
          /\ UNCHANGED <<w, ph, pending, step, oks, failed, anyfail, exit, order, deviated>>

\* mockery.go:378-397  missing-interface accounting and exit status
Post ==
  /\ pc = "loop" /\ pending = {}
  /\ exit' = IF HasMissing(w) \/ anyfail THEN 1 ELSE 0
  /\ pc' = "done"
  /\ UNCHANGED <<w, ph, pending, cur, step, oks, fs, written, failed, anyfail, order, deviated>>

Next == \/ PrePhase
        \/ \E f \in FileSet : Begin(f)
        \/ \E s \in StageSet : Stage(s)
        \/ Mkdir \/ Stat \/ Write
        \/ Post

Spec == Init /\ [][Next]_vars
\* enumerate the worlds only (case export)
WorldsOnly == Init /\ [][FALSE]_vars

-----------------------------------------------------------------------------
(* CONTRACT as invariants / action properties over the run (DESIGN.md section 4 C10, appendix A.4) *)

Outcome(f) == IF fs[Out(f)] = Fs0(w)[Out(f)] THEN "old" ELSE IF fs[Out(f)] = "NEW" THEN "new" ELSE "other"

TypeOK == /\ pc \in {"pre", "loop", "file", "done"}
          /\ written \subseteq FileSet /\ failed \subseteq FileSet
          /\ \A p \in Paths : fs[p] \in {"ABSENT", "DIR", "GEN", "USER", "NEW", "KEEP"}
\* a path that is not designated, and not a parent directory of one, never changes
Frame == [][\A p \in Paths : p \notin Designated \cup ParentDirs => fs'[p] = fs[p]]_vars
ParentsOnlyCreated == [][\A f \in FileSet : fs'[Dir(f)] # fs[Dir(f)] => fs[Dir(f)] = "ABSENT" /\ fs'[Dir(f)] = "DIR"]_vars
\* an existing path changes only if the effective force-file-write of that file is true
NoClobber == [][\A f \in FileSet : fs[Out(f)] # "ABSENT" /\ fs'[Out(f)] # fs[Out(f)] => w.force[f]]_vars
\* every designated path holds its complete old content or the complete new content -- in every state
OldOrNew == \A f \in FileSet : Outcome(f) \in {"old", "new"}
FailedFileUntouched == \A f \in failed : Outcome(f) = "old"
WriteOnlyAfterAllStagesOk == [][\A f \in FileSet : f \in written' /\ f \notin written =>
                                   cur = f /\ oks = StageSet /\ Steps[step] = "write"]_vars
WrittenIsNew == \A f \in FileSet : f \in written <=> (fs[Out(f)] = "NEW")
ExitZeroIffAllWritten == pc = "done" /\ ~deviated => (exit = 0 <=> (written = Configured(w) /\ ~HasMissing(w) /\ failed = {} /\ (w.fault.kind # "input" \/ UndecidedInput(w))))
\* the terminal state is one the exported expectation accepts (known deviations excepted: they are predictions to replay)
ExitClass == IF exit = 0 THEN "zero" ELSE "nonzero"
MeetsContract == /\ \A f \in FileSet : Outcome(f) \in AllowedFinal(w, f)
                 /\ ExpectExit(w) \in {"any", ExitClass}
ImplMeetsContract == pc = "done" /\ ~deviated => MeetsContract
\* a known deviation really is one whenever nothing else makes the run fail
DeviationsAreViolations == pc = "done" /\ deviated /\ failed = {} => ~MeetsContract
Terminates == pc = "done" => exit \in {0, 1}

\* vacuity witnesses: each of these must be VIOLATED on the C10 model (checked by the harness)
NeverAFailedStage == failed = {}
NeverAnExistingFileOverwritten == \A f \in FileSet : ~(f \in written /\ w.fs0[f] # "absent")
NeverBlockedByExistingFile == ~(pc = "done" /\ \E f \in failed : f \notin w.fault.files /\ w.fs0[f] # "absent")
NeverWriteAfterFailure == ~(\E f \in written : failed # {} /\ ~StopAtFailure)

-----------------------------------------------------------------------------
(* Export.  One CASE per world with the contract's expectation; with EmitBeh also one BEH per terminal state of
   the code-shaped model (its prediction for that file order). *)
CaseRec(wd) == [world |-> wd, expect |-> Expectation(wd),
                impl_deviation |-> IF wd.fault.kind = "input" /\ wd.fault.class \in DeviationClasses THEN "known" ELSE "-"]
EmitCase == IF pc = "pre" /\ ph = 1 THEN PrintT(<<"CASE", ToJson(CaseRec(w))>>) ELSE TRUE
EmitBeh == /\ EmitCase
           /\ IF pc = "done" THEN PrintT(<<"BEH", ToJson([world |-> w, order |-> order, written |-> written, failed |-> failed,
                                                          exit |-> exit, deviated |-> deviated])>>) ELSE TRUE
EmitLevels == \A a \in LevelAssignments : PrintT(<<"LEVELS", ToJson([a |-> a, eff |-> EffectiveForce(a)])>>)
=============================================================================
