---------------------------- MODULE SchemaTrace ----------------------------
(***************************************************************************)
(* Trace validation for C12: the FileBegin / Stage(template) /             *)
(* Stage(schema) / Write / Exit hook events of real runs, one `begin`      *)
(* event per run carrying the contract's expectation for the two output    *)
(* files (Schema!Expect, computed by TLC when the case was generated).     *)
(*                                                                         *)
(* Accepted behaviours (the property, nothing about caches or order):      *)
(*  - a file's template stage succeeds with a schema in hand whenever the  *)
(*    contract says its data must be validated, and fails when a required  *)
(*    schema cannot be had;                                                *)
(*  - the schema stage reports `validated` whenever a schema was in hand,  *)
(*    succeeds only for a file that is not "bad" and fails only for a file *)
(*    that is not "ok";                                                    *)
(*  - Write(f) only after f's schema stage succeeded in the same run        *)
(*    (files one after the other or stage by stage: both are fine);        *)
(*  - exit 0 only when every file was written.                             *)
(***************************************************************************)
EXTENDS Naturals, Sequences, FiniteSets, TLC, Json

Trace == ndJsonDeserialize("trace.ndjson")

VARIABLES l,     \* next event
          exp,   \* expectation of the run: file -> [verdict, validate]
          run,   \* "idle" | "run" | "exited"
          cur,   \* file of the latest FileBegin (stage events carry no file name)
          st,    \* file -> "-" | "begun" | "template" | "schema" | "failed" | "written"
          hs     \* file -> a schema was in hand after the template stage
tvars == <<l, exp, run, cur, st, hs>>

Ev == Trace[l]
IsEvent(e) == l <= Len(Trace) /\ Trace[l].ev = e /\ l' = l + 1
Files == {"F1", "F2"}
Fresh == [f \in Files |-> "-"]
NoSch == [f \in Files |-> FALSE]

TraceInit == l = 1 /\ exp = << >> /\ run = "idle" /\ cur = "-" /\ st = Fresh /\ hs = NoSch

Begin == /\ IsEvent("begin")
         /\ run \in {"idle", "exited"}
         /\ exp' = Ev.exp /\ cur' = "-" /\ run' = "run" /\ st' = Fresh /\ hs' = NoSch

\* files may be processed in any order, one after the other or stage by stage
FileBegin == /\ IsEvent("FileBegin")
             /\ run = "run"
             /\ Ev.f \in Files /\ st[Ev.f] = "-"
             /\ cur' = Ev.f /\ st' = [st EXCEPT ![Ev.f] = "begun"]
             /\ UNCHANGED <<exp, run, hs>>

StageTemplate ==
  /\ IsEvent("StageTemplate")
  /\ run = "run" /\ cur \in Files /\ st[cur] = "begun"
  /\ IF Ev.ok
     THEN /\ exp[cur].validate # "fail"                      \* a required schema that cannot be had is an error
          /\ exp[cur].validate = "yes" => Ev.hasschema       \* never skip validation where it is due
          /\ hs' = [hs EXCEPT ![cur] = Ev.hasschema] /\ st' = [st EXCEPT ![cur] = "template"]
     ELSE /\ exp[cur].verdict # "ok"
          /\ st' = [st EXCEPT ![cur] = "failed"] /\ UNCHANGED hs
  /\ UNCHANGED <<exp, run, cur>>

StageSchema ==
  /\ IsEvent("StageSchema")
  /\ run = "run" /\ cur \in Files /\ st[cur] = "template"
  /\ IF Ev.ok
     THEN /\ Ev.validated = hs[cur]                          \* a schema in hand is applied
          /\ exp[cur].verdict # "bad"
          /\ st' = [st EXCEPT ![cur] = "schema"]
     ELSE /\ exp[cur].verdict # "ok"
          /\ hs[cur]
          /\ st' = [st EXCEPT ![cur] = "failed"]
  /\ UNCHANGED <<exp, run, cur, hs>>

\* nothing is written for a file before its template-data went through the schema stage
Write == /\ IsEvent("Write")
         /\ run = "run" /\ Ev.f \in Files /\ st[Ev.f] = "schema"
         /\ exp[Ev.f].verdict # "bad"
         /\ st' = [st EXCEPT ![Ev.f] = "written"]
         /\ UNCHANGED <<exp, run, cur, hs>>

Exit == /\ IsEvent("Exit")
        /\ run = "run"
        /\ IF Ev.code = 0
           THEN \A f \in Files : st[f] = "written" /\ exp[f].verdict # "bad"
           ELSE /\ \E f \in Files : exp[f].verdict # "ok"       \* conforming data is accepted
                /\ \A f \in Files : exp[f].verdict = "bad" => st[f] # "written"
        /\ run' = "exited"
        /\ UNCHANGED <<exp, cur, st, hs>>

TraceNext == Begin \/ FileBegin \/ StageTemplate \/ StageSchema \/ Write \/ Exit

TraceSpec == TraceInit /\ [][TraceNext]_tvars

Consumed == TLCGet("stats").diameter - 1
TraceAccepted == PrintT(<<"CONSUMED", Consumed, Len(Trace)>>) /\ Consumed = Len(Trace)
=============================================================================
