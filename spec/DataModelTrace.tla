--------------------------- MODULE DataModelTrace ---------------------------
(***************************************************************************)
(* C14, code -> spec: the data model mockery handed to a probe template    *)
(* (dumped by the probe, one event per interface / method) validated       *)
(* against the contract:                                                   *)
(*   EachMethodOnce               every expected method exactly once,      *)
(*                                nothing else                             *)
(*   BooleansAsExpected           IsVariadic, ReturnsError, HasParams,     *)
(*                                HasReturns, AcceptsContext,              *)
(*                                ReturnStatement, arities = DataModel.tla *)
(*   ParamAccessors               Variadic, TypeStringEllipsis,            *)
(*                                TypeStringVariadicUnderlying, MethodArg, *)
(*                                CallName, Nillable of every parameter    *)
(*                                AND every result (a result is never      *)
(*                                variadic)                                *)
(*   NamesDistinctValidUncaptured names offered for one signature are      *)
(*                                valid identifiers, pairwise distinct,    *)
(*                                and none equals a qualifier or type      *)
(*                                identifier used in that signature        *)
(*   TypeParamsReproduced         as many type parameters as declared      *)
(* `exp` fields are the expectation TLC exported for the program           *)
(* (Codegen.tla PROG.dm); `used` is the set of identifiers/qualifiers the  *)
(* reported type strings resolve (go/parser, drivers/gofileinfo -exprs).   *)
(***************************************************************************)
EXTENDS Naturals, Sequences, FiniteSets, TLC, Json

Trace == ndJsonDeserialize("trace.ndjson")
VARIABLES l, expected, seen, open, nrej
tvars == <<l, expected, seen, open, nrej>>

ToSet(s) == {s[i] : i \in 1..Len(s)}
Ev == Trace[l]
At(e) == l <= Len(Trace) /\ Trace[l].ev = e

TraceInit == l = 1 /\ expected = {} /\ seen = {} /\ open = FALSE /\ nrej = 0

NamesOK(names, valid, used) ==
  /\ \A i \in 1..Len(names) : valid[i]
  /\ \A i, j \in 1..Len(names) : i # j => names[i] # names[j]
  /\ \A i \in 1..Len(names) : names[i] \notin ToSet(used)

\* the string accessors of one Param (v: what the probe dumped, e: DataModel.tla ExpParam / ExpResult)
\*   Variadic; TypeStringEllipsis; TypeStringVariadicUnderlying; MethodArg; CallName true; Nillable
VarOK(v, e) ==
  /\ v.variadic = e.variadic
  /\ e.nillable = "any" \/ v.nillable = (e.nillable = "true")
  /\ IF e.variadic
     THEN /\ Len(v.type) > 2 /\ SubSeq(v.type, 1, 2) = "[]"
          /\ LET el == SubSeq(v.type, 3, Len(v.type)) IN
             v.under = el /\ v.ellipsis = "..." \o el /\ v.arg = v.name \o " ..." \o el /\ v.call = v.name \o "..."
     ELSE v.ellipsis = v.type /\ v.under = v.type /\ v.arg = v.name \o " " \o v.type /\ v.call = v.name
VarsOK(vs, es) == Len(vs) = Len(es) /\ \A i \in 1..Len(vs) : VarOK(vs[i], es[i])

\* guards: when does the contract accept the next recorded event?
CanReset  == At("reset")
CanBegin  == At("begin") /\ ~open /\ Ev.ntparams = Ev.exp_ntparams                    \* TypeParamsReproduced
CanMethod == /\ At("method") /\ open
             /\ Ev.name \in expected /\ Ev.name \notin seen                           \* EachMethodOnce
             /\ Ev.rep = Ev.exp                                                       \* BooleansAsExpected
             /\ VarsOK(Ev.params, Ev.exp_params) /\ VarsOK(Ev.results, Ev.exp_results) \* every Param accessor, params AND results
             /\ NamesOK(Ev.names, Ev.valid, Ev.used)                                  \* NamesDistinctValidUncaptured
CanEnd    == At("end") /\ open /\ seen = expected                                     \* nothing dropped

Reset  == CanReset  /\ l' = l + 1 /\ expected' = {} /\ seen' = {} /\ open' = FALSE /\ UNCHANGED nrej
Begin  == CanBegin  /\ l' = l + 1 /\ expected' = ToSet(Ev.exp_methods) /\ seen' = {} /\ open' = TRUE /\ UNCHANGED nrej
Method == CanMethod /\ l' = l + 1 /\ seen' = seen \cup {Ev.name} /\ UNCHANGED <<expected, open, nrej>>
End    == CanEnd    /\ l' = l + 1 /\ open' = FALSE /\ UNCHANGED <<expected, seen, nrej>>

\* the contract rejects the event: report it, drop the rest of this case (up to the next reset) and go on, so that
\* one TLC run judges every recorded case
NextReset == IF \E k \in (l + 1)..Len(Trace) : Trace[k].ev = "reset"
             THEN CHOOSE k \in (l + 1)..Len(Trace) : Trace[k].ev = "reset" /\ \A m \in (l + 1)..(k - 1) : Trace[m].ev # "reset"
             ELSE Len(Trace) + 1
Reject == /\ l <= Len(Trace) /\ ~(CanReset \/ CanBegin \/ CanMethod \/ CanEnd)
          /\ PrintT(<<"REJECT", ToJson([at |-> l - 1])>>)
          /\ l' = NextReset /\ nrej' = nrej + 1 /\ expected' = {} /\ seen' = {} /\ open' = FALSE

\* end of the recording: report how many events the contract rejected (acceptance = none)
Done == /\ l = Len(Trace) + 1
        /\ PrintT(<<"DONE", ToJson([rejected |-> nrej, events |-> Len(Trace)])>>)
        /\ l' = l + 1 /\ UNCHANGED <<expected, seen, open, nrej>>

TraceNext == Done \/ Reset \/ Begin \/ Method \/ End \/ Reject
TraceSpec == TraceInit /\ [][TraceNext]_tvars

TraceAccepted == PrintT(<<"CONSUMED", TLCGet("stats").diameter - 1, Len(Trace)>>)
=============================================================================
