--------------------------- MODULE DataModelShapes ---------------------------
(***************************************************************************)
(* C14 -- program families beyond CodegenMC.tla that only the data-model   *)
(* check runs (own TLC run of Codegen.tla over them: expectation PROG.dms, *)
(* footprint prediction PRED as for every other family).                   *)
(*                                                                         *)
(*   Repeat   ONE variable (parameter, result, variadic element, type-     *)
(*            parameter constraint) whose type mentions a package p more   *)
(*            than once, a LATER mention being a generic instantiation     *)
(*            whose type argument comes from another package q: nested     *)
(*            instantiations of depth 2 (and 3), map key + instantiated    *)
(*            value, func parameter + instantiated result, struct fields,  *)
(*            two type arguments, behind pointers / slices.  p ranges over *)
(*            a foreign package, the package under test and a package      *)
(*            whose name is not its path base; q over foreign / stdlib /   *)
(*            the package under test.  Every string of such a variable     *)
(*            must still qualify q and the file must import it.            *)
(*   Adjacent signatures in which CONSECUTIVE parameters (results) have    *)
(*            the same type -- at the front, in the middle, directly       *)
(*            before a variadic parameter, and the pair `xs []E, ys ...E`  *)
(*            whose go/types types are EQUAL although only one is          *)
(*            variadic -- over element types of every leaf class.  The     *)
(*            method-level strings (ArgList, Signature, Declaration, ...)  *)
(*            must denote the source signature incl. variadic-ness.        *)
(* DMClass(p) tells the harness which programs contain the situations      *)
(* (DataModel.tla RepeatedPkgThenGenericArg / SameTypeAsNext).             *)
(***************************************************************************)
EXTENDS CodegenMC

(* ------------------------------------------------------------------------ *)
(* Repeat                                                                    *)
RpOuter == {"FX", "SRC", "FV"}
RpInner == {"FY", "Stime", "SRC", "FX"}
RpG(p, a)  == IF p = "SRC" THEN Inst("SRC", "LG", <<a>>) ELSE Inst(p, "G", <<a>>)
RpT(p)     == IF p = "SRC" THEN N("SRC", "LT") ELSE IF p = "Stime" THEN N("Stime", "Duration") ELSE N(p, "T")
RpE(p)     == IF p = "SRC" THEN N("SRC", "LE") ELSE N(p, "E")
RpKinds == {"nest", "nest3", "mapkv", "fnres", "fields", "twoargs", "ptrslice", "chanmap"}
RpTerm(kind, p, q) ==
  CASE kind = "nest"     -> RpG(p, RpG(p, RpT(q)))                                            \* p.G[p.G[q.T]]
    [] kind = "nest3"    -> RpG(p, RpG(p, RpG(p, Map(Str, RpT(q)))))                          \* p.G[p.G[p.G[map[string]q.T]]]
    [] kind = "mapkv"    -> Map(RpE(p), RpG(p, RpT(q)))                                       \* map[p.E]p.G[q.T]
    [] kind = "fnres"    -> Fn(<<V("", RpT(p))>>, <<V("", RpG(p, RpT(q))), V("", Err)>>, FALSE)  \* func(p.T) (p.G[q.T], error)
    [] kind = "fields"   -> Struct(<<Fld("F", RpT(p), "", FALSE), Fld("H", RpG(p, Ptr(RpT(q))), "", FALSE)>>)
    [] kind = "twoargs"  -> Inst("SRC", "LG2", <<RpE(p), RpG(p, RpT(q))>>)                    \* LG2[p.E, p.G[q.T]]
    [] kind = "ptrslice" -> Slice(Ptr(RpG(p, Slice(RpG(p, RpT(q))))))                         \* []*p.G[[]p.G[q.T]]
    [] kind = "chanmap"  -> Chan("recv", Map(Str, RpG(p, RpG(p, RpT(q)))))
\* position of the variable: a parameter and the result / the variadic element / a type-parameter constraint
RpSigProg(kind, p, q) ==
  LET t == RpTerm(kind, p, q) IN
  [P("repeat/sig/" \o kind \o "/" \o p \o "/" \o q, "repeat", kind, "cs",
     One("I", Decl(<< >>, << >>, <<Meth("M", <<V("a", t)>>, <<V("", t)>>, FALSE), Meth("V", <<V("p", Int), V("v", t)>>, << >>, TRUE),
                                     Meth("N", <<V("", RpT(q))>>, << >>, FALSE)>>)), "I")     \* q is ALSO mentioned elsewhere in the file
   EXCEPT !.pos = "sig"]
\* nothing else mentions q: the variable is the only reason for the import
RpSoleProg(kind, p, q) ==
  LET t == RpTerm(kind, p, q) IN
  [P("repeat/sole/" \o kind \o "/" \o p \o "/" \o q, "repeat", kind, "cs",
     One("I", Decl(<< >>, << >>, <<Meth("M", <<V("z", Int), V("", t)>>, <<V("", Err)>>, FALSE)>>)), "I")
   EXCEPT !.pos = "sole"]
\* constraint position: a composite type is its own underlying type (tilde term); an instantiated named type is a plain term
RpConstraint(kind, t) == IF kind \in {"nest", "nest3", "twoargs"} THEN Union(<<Plain(t)>>) ELSE Union(<<t>>)
RpTpProg(kind, p, q) ==
  LET t == RpTerm(kind, p, q) IN
  [P("repeat/tparam/" \o kind \o "/" \o p \o "/" \o q, "repeat", kind, "cs",
     One("I", Decl(<<TPar("T", RpConstraint(kind, t))>>, << >>,
                   <<Meth("Get", << >>, <<V("", TP("T"))>>, FALSE), Meth("Put", <<V("v", TP("T"))>>, << >>, FALSE)>>)), "I")
   EXCEPT !.pos = "tparam"]
\* a channel type is no valid tilde operand of interest here and `fnres`/`fields` stay in: all are their own underlying type
RpPairs == {<<p, q>> \in RpOuter \X RpInner : p # q}
\* (kind, p, q) triples that really are instances of the class (LG2[FX.E, FX.G[LT]] is not: LG2 itself mentions SRC first)
RpTriples(pairs) == {<<k, pq[1], pq[2]>> : k \in RpKinds, pq \in pairs}
RpIn(pairs) == {x \in RpTriples(pairs) : RepeatedPkgThenGenericArg(RpTerm(x[1], x[2], x[3]))}
RpFamily(pairs) == {RpSigProg(x[1], x[2], x[3]) : x \in RpIn(pairs)} \cup {RpSoleProg(x[1], x[2], x[3]) : x \in RpIn(pairs)}
                   \cup {RpTpProg(x[1], x[2], x[3]) : x \in {y \in RpIn(pairs) : y[1] # "chanmap"}}
RepeatAll == RpFamily(RpPairs)
\* quick tier: every kind x position, outer package foreign or the package under test, two inner packages
RpQuickPairs == {<<"FX", "FY">>, <<"FX", "Stime">>, <<"SRC", "FX">>, <<"SRC", "Stime">>, <<"FV", "SRC">>}
RepeatQuick == RpFamily(RpQuickPairs)

(* ------------------------------------------------------------------------ *)
(* Adjacent                                                                  *)
AdjElems == {B("byte"), AnyT, Str, Err, N("FX", "T"), N("SRC", "LT"), N("Stime", "Duration"), Ptr(N("FY", "T")), Slice(Int),
             Inst("FX", "G", <<N("FY", "T")>>), Fn(<<V("", Int)>>, << >>, FALSE), Map(Str, N("FZ", "T")), N("FX", "AnyA")}
AdjMethods(e) ==
  <<Meth("M", <<V("dst", Slice(e)), V("src", e)>>, <<V("", Slice(e))>>, TRUE),                      \* M(dst []E, src ...E) []E
    Meth("N", <<V("a", e), V("b", e)>>, <<V("c", e), V("d", e)>>, FALSE),                           \* N(a, b E) (c, d E)
    Meth("V", <<V("a", e), V("b", e), V("cs", e)>>, <<V("", Int), V("", Err)>>, TRUE),              \* V(a, b E, cs ...E)
    Meth("W", <<V("p", Int), V("xs", Slice(e)), V("ys", Slice(e)), V("zs", e)>>, <<V("", Err)>>, TRUE),   \* W(p int, xs, ys []E, zs ...E)
    Meth("X", <<V("ctx", N("Scontext", "Context")), V("a", Slice(e)), V("b", Slice(e)), V("n", Int)>>, << >>, FALSE),
    Meth("Get", <<V("", Slice(e)), V("", e)>>, <<V("", e), V("", e)>>, TRUE)>>                      \* unnamed: Get([]E, ...E) (E, E)
AdjProg(e) == [P("adjacent/" \o Show(e), "adjacent", Show(e), "cs", One("I", Decl(<< >>, << >>, AdjMethods(e))), "I") EXCEPT !.pos = "plain"]
\* the element is the interface's own type parameter
AdjTpProg(cn) == [P("adjacent/T-" \o Show(cn), "adjacent", "tp:" \o Show(cn), "cs",
                    One("I", Decl(<<TPar("T", cn)>>, << >>, AdjMethods(TP("T")))), "I") EXCEPT !.pos = "tparam"]
AdjacentAll == {AdjProg(e) : e \in AdjElems} \cup {AdjTpProg(cn) : cn \in {AnyT, Cmp}}

(* ------------------------------------------------------------------------ *)
DMShapesQuick    == RepeatQuick \cup AdjacentAll
DMShapesThorough == RepeatAll \cup AdjacentAll

\* classification by the contract-level predicates of DataModel.tla (vacuity guards of the harness)
DeclVarTypes(d) == {d.tps[i].c : i \in 1..Len(d.tps)}
                   \cup UNION {{ParamType(d.ms[i], k) : k \in 1..Len(d.ms[i].ps)} \cup {d.ms[i].rs[k].t : k \in 1..Len(d.ms[i].rs)} : i \in 1..Len(d.ms)}
DMClass(p) == LET d == p.decls[p.target] IN
  [pid |-> p.pid,
   repeated |-> \E t \in DeclVarTypes(d) : RepeatedPkgThenGenericArg(t),
   sameasnext |-> [i \in 1..Len(d.ms) |-> [n |-> d.ms[i].n, at |-> SameTypeAsNext(d.ms[i]), nparams |-> Len(d.ms[i].ps),
                                           slice_then_variadic |-> SliceThenVariadicOfElem(d.ms[i])]]]
ASSUME \A p \in DMShapesThorough : PrintT(<<"DMCLASS", ToJson(DMClass(p))>>)
ASSUME \A p \in RepeatAll : DMClass(p).repeated                       \* the family is what it claims to be
ASSUME \A k \in RpKinds : \E p \in RepeatQuick : p.feat = k /\ p.pos = "sole"
ASSUME \A p \in AdjacentAll : \E i \in 1..Len(DMClass(p).sameasnext) : DMClass(p).sameasnext[i].slice_then_variadic
=============================================================================
