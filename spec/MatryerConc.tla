----------------------------- MODULE MatryerConc -----------------------------
(***************************************************************************)
(* C05 -- a generated matryer mock under concurrent use, at statement      *)
(* granularity.  N goroutines each run K operations of the mock; every     *)
(* operation is a PROGRAM of instructions over the shared variables of the *)
(* mock instance (mock.calls.M, ...) and its RW mutexes.                   *)
(*                                                                         *)
(* The programs are not written here: they are CONSTANTS, extracted by     *)
(* drivers/concdrv/extract (go/ast) from the code the real binary has just *)
(* generated, and spliced in by checks/c05.py as module MatryerConcRun.    *)
(* A change of the template changes the constants and TLC decides again.   *)
(*                                                                         *)
(* An operation's program is given as the set of its control PATHS (the    *)
(* extractor's instruction list has branches, jumps, returns, panics and   *)
(* deferred lists; checks/c05.py enumerates the finitely many paths, puts  *)
(* the deferred instructions where Go runs them -- LIFO at return/panic -- *)
(* and keeps the instructions that touch shared state):                    *)
(*   lock/unlock/rlock/runlock mu      sync.RWMutex operations             *)
(*   read v                            load of a shared variable (snapshot)*)
(*   write v kind                      store: "append" = snapshot \o <<me>> *)
(*                                     (append is read-then-write, so a    *)
(*                                     lost update is expressible), "nil"  *)
(*                                     = empty, "other" = something else   *)
(* Goroutine-local instructions (building callInfo, forwarding to MFunc,   *)
(* the nil check of a field no operation stores to) are dropped: they      *)
(* commute with everything.                                                *)
(***************************************************************************)
EXTENDS Naturals, Sequences, FiniteSets, TLC

CONSTANTS Paths,      \* operation name -> sequence of paths, each a sequence of instructions [op, mu, v, kind]
          Alphabet,   \* operation names the goroutines choose from
          Gs,         \* goroutines (model values: symmetric)
          K           \* operations per goroutine

None == "none"
SeqRange(s) == {s[i] : i \in 1..Len(s)}
AllInstr == UNION {UNION {SeqRange(Paths[o][p]) : p \in 1..Len(Paths[o])} : o \in Alphabet}
LockOps  == {"lock", "unlock", "rlock", "runlock"}
Mutexes  == {x.mu : x \in {y \in AllInstr : y.op \in LockOps}}
Vars     == {x.v : x \in {y \in AllInstr : y.op \in {"read", "write"}}}
Written  == {x.v : x \in {y \in AllInstr : y.op = "write"}}      \* variables some operation stores to

VARIABLES pc,        \* g -> [op, p, i]   op = "idle" between operations; path p, next instruction i
          left,      \* g -> operations still to start
          mem,       \* v -> sequence of operation identities (the call log) for v in Vars
          snap,      \* g -> v -> what g last loaded from v
          lock,      \* mu -> [w |-> goroutine or None, r |-> set of goroutines]
          cand,      \* v -> set of mutexes held at EVERY access so far (lockset; writes count W-holds only)
          accessed,  \* v -> BOOLEAN
          lost,      \* an append stored over a value newer than the one it had loaded
          badunlock, \* Unlock/RUnlock of a mutex not held that way (Go: fatal error)
          resets,    \* some "nil"/"other" store happened
          appended,  \* set of <<v, id>> whose append store was executed
          torn,      \* some operation loaded a variable again, in a LATER critical section, and what it had loaded before
                     \* is not a prefix of what it finds now: its result is put together from two logs that never were
                     \* one log (an accessor whose critical section is split: length read, lock released, contents copied)
          early      \* some operation entered the user's function ("forward") while a store of its own (the record) was still ahead

vars == <<pc, left, mem, snap, lock, cand, accessed, lost, badunlock, resets, appended, early, torn>>

Init == /\ pc = [g \in Gs |-> [op |-> "idle", p |-> 0, i |-> 0]]
        /\ left = [g \in Gs |-> K]
        /\ mem = [v \in Vars |-> << >>]
        /\ snap = [g \in Gs |-> [v \in Vars |-> << >>]]
        /\ lock = [m \in Mutexes |-> [w |-> None, r |-> {}]]
        /\ cand = [v \in Vars |-> {}]
        /\ accessed = [v \in Vars |-> FALSE]
        /\ lost = FALSE /\ badunlock = FALSE /\ resets = FALSE
        /\ appended = {}
        /\ early = FALSE
        /\ torn = FALSE

OpId(g) == <<g, K - left[g]>>          \* identity of g's running operation (= the argument tuple of that call)
HeldW(g) == {m \in Mutexes : lock[m].w = g}
HeldR(g) == HeldW(g) \cup {m \in Mutexes : g \in lock[m].r}

Access(v, held) == /\ cand' = [cand EXCEPT ![v] = IF accessed[v] THEN @ \cap held ELSE held]
                   /\ accessed' = [accessed EXCEPT ![v] = TRUE]

\* effect of one straight-line instruction executed by g (control flow is handled by the callers)
Exec(g, ins) ==
  CASE ins.op = "lock" ->
         /\ lock[ins.mu].w = None /\ lock[ins.mu].r = {}                 \* blocks otherwise
         /\ lock' = [lock EXCEPT ![ins.mu].w = g]
         /\ UNCHANGED <<mem, snap, cand, accessed, lost, badunlock, resets, appended>>
    [] ins.op = "rlock" ->
         /\ lock[ins.mu].w = None
         /\ lock' = [lock EXCEPT ![ins.mu].r = @ \cup {g}]
         /\ UNCHANGED <<mem, snap, cand, accessed, lost, badunlock, resets, appended>>
    [] ins.op = "unlock" ->
         /\ IF lock[ins.mu].w = g THEN lock' = [lock EXCEPT ![ins.mu].w = None] /\ UNCHANGED badunlock
                                  ELSE badunlock' = TRUE /\ UNCHANGED lock
         /\ UNCHANGED <<mem, snap, cand, accessed, lost, resets, appended>>
    [] ins.op = "runlock" ->
         /\ IF g \in lock[ins.mu].r THEN lock' = [lock EXCEPT ![ins.mu].r = @ \ {g}] /\ UNCHANGED badunlock
                                    ELSE badunlock' = TRUE /\ UNCHANGED lock
         /\ UNCHANGED <<mem, snap, cand, accessed, lost, resets, appended>>
    [] ins.op = "read" ->
         /\ snap' = [snap EXCEPT ![g][ins.v] = mem[ins.v]]
         /\ Access(ins.v, HeldR(g))
         /\ UNCHANGED <<mem, lock, lost, badunlock, resets, appended>>
    [] ins.op = "write" ->
         /\ Access(ins.v, HeldW(g))
         /\ IF ins.kind = "append"
            THEN /\ mem' = [mem EXCEPT ![ins.v] = Append(snap[g][ins.v], OpId(g))]
                 /\ lost' = (lost \/ mem[ins.v] # snap[g][ins.v])
                 /\ appended' = appended \cup {<<ins.v, OpId(g)>>}
                 /\ UNCHANGED resets
            ELSE /\ mem' = [mem EXCEPT ![ins.v] = << >>]
                 /\ resets' = TRUE
                 /\ UNCHANGED <<lost, appended>>
         /\ UNCHANGED <<snap, lock, badunlock>>
    [] OTHER -> UNCHANGED <<mem, snap, lock, cand, accessed, lost, badunlock, resets, appended>>

Start(g) == /\ pc[g].op = "idle" /\ left[g] > 0
            /\ \E o \in Alphabet : \E p \in 1..Len(Paths[o]) :
                 /\ pc' = [pc EXCEPT ![g] = [op |-> o, p |-> p, i |-> 1]]
            /\ left' = [left EXCEPT ![g] = @ - 1]
            /\ UNCHANGED <<mem, snap, lock, cand, accessed, lost, badunlock, resets, appended, early, torn>>

IsPrefix(s, t) == Len(s) <= Len(t) /\ \A i \in 1..Len(s) : s[i] = t[i]

Step(g) ==
  /\ pc[g].op # "idle"
  /\ LET path == Paths[pc[g].op][pc[g].p] IN
     IF pc[g].i > Len(path)
     THEN /\ pc' = [pc EXCEPT ![g] = [op |-> "idle", p |-> 0, i |-> 0]]
          /\ snap' = [snap EXCEPT ![g] = [v \in Vars |-> << >>]]          \* locals die with the call
          /\ UNCHANGED <<left, mem, lock, cand, accessed, lost, badunlock, resets, appended, early, torn>>
     ELSE /\ Exec(g, path[pc[g].i])
          \* "forward" = the user's function is entered (kept only in the paths of the order configuration): the record of
          \* this very call must already have been appended
          /\ early' = (early \/ (path[pc[g].i].op = "forward"
                                  /\ \E j \in (pc[g].i + 1)..Len(path) : path[j].op = "write"))
          \* every load of an operation is one atomic step and snap[g] is the local carried between its critical sections:
          \* what the operation returns is made of ALL its loads (n := len(v) in one section, copy(out, v) in the next), so
          \* it is one log of the mock only if each later load extends the earlier one (appends in between are harmless,
          \* a reset in between is not: the result then holds records no call produced / more records than exist)
          /\ torn' = (torn \/ (path[pc[g].i].op = "read" /\ ~IsPrefix(snap[g][path[pc[g].i].v], mem[path[pc[g].i].v])))
          /\ pc' = [pc EXCEPT ![g].i = @ + 1]
          /\ UNCHANGED left

AllDone == \A g \in Gs : pc[g].op = "idle" /\ left[g] = 0
Terminated == AllDone /\ UNCHANGED vars
Next == (\E g \in Gs : Start(g) \/ Step(g)) \/ Terminated

Spec     == Init /\ [][Next]_vars
FairSpec == Spec /\ \A g \in Gs : WF_vars(Start(g) \/ Step(g))

---------------------------------------------------------------------------
(* C05 at protocol level *)
\* every load/store of a variable that is stored to happens inside a critical section of one common mutex,
\* stores under the write lock
NoUnlockedAccess == \A v \in Written : accessed[v] => cand[v] # {}
\* an append never overwrites a log newer than the one it extended (no lost update, no resurrected record)
NoLostUpdate == ~lost
NoBadUnlock == ~badunlock
IsInjective(s) == \A i, j \in 1..Len(s) : i # j => s[i] # s[j]
\* no record twice, only records of appends that happened; without resets every append is there at the end
NoLostOrDuplicatedRecord ==
  \A v \in Vars :
     /\ IsInjective(mem[v])
     /\ \A i \in 1..Len(mem[v]) : <<v, mem[v][i]>> \in appended
     /\ (AllDone /\ ~resets) => {<<v, mem[v][i]>> : i \in 1..Len(mem[v])} = {a \in appended : a[1] = v}
\* each record is the identity (= the argument tuple) of exactly one call
RecordIsOneCallsArgs == \A v \in Vars : \A i \in 1..Len(mem[v]) : mem[v][i] \in (Gs \X (1..K))
\* (deadlock freedom: TLC's deadlock check; Terminated is the only stuttering allowed)
\* the call is recorded BEFORE the user's function is entered: a goroutine that learns from the function that it is
\* running already finds the call in MCalls(), and a function that panics or never returns does not lose the call
RecordedBeforeFuncEntered == ~early
\* "each recorded call holds the arguments of exactly one actual call", applied to what MCalls() RETURNS while resets run:
\* the loads an operation's result is made of are successive states of one growing log
ReadsFormOneSnapshot == ~torn
EveryOpCompletes == <>[]AllDone
Symm == Permutations(Gs)
=============================================================================
