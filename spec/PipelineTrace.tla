--------------------------- MODULE PipelineTrace ---------------------------
(***************************************************************************)
(* Trace specification over the hook events every `mockery` run emits      *)
(* (build tag verif; internal/cmd/mockery.go, internal/template_generator.go*)
(* -- see `grep -rn verifhook.Emit /repo`).  lib/pipetrace.py projects the  *)
(* raw events of each run to the records below (every field always         *)
(* present), puts a `reset` in front of each run and a synthetic `ProcExit` *)
(* (the status the operating system reported) behind it, and concatenates   *)
(* many runs into one trace.ndjson.                                         *)
(*                                                                         *)
(*   [ev, run, file, stage, ok, exists, force, code]                        *)
(*   ev \in reset | Parsed | Collect | FileBegin | Stage | Generated |      *)
(*         Exists | Write | Missing | Failpoint | Exit | ProcExit           *)
(*                                                                         *)
(* The guards are the CONTRACT of C09/C10 on the level of one run:          *)
(*   * stages of a file in pipeline order, each at most once, none after a  *)
(*     failed one;                                                          *)
(*   * Write(f) only after all four stages of f completed AND the existence *)
(*     check of f said (not exists) or force-file-write   (NoClobber,       *)
(*     WriteOnlyAfterAllStagesOk), never for a file with a failed step      *)
(*     (FailedFileUntouched), at most once;                                 *)
(*   * Exit code 0 only if every collected file was written, no step failed *)
(*     and no listed interface was Missing   (ExitZeroIffAllWritten);       *)
(*   * the status of the process agrees with the Exit event.                *)
(* They do not say whether the run stops at the first failing file, nor in  *)
(* which order files are taken, nor when the existence check happens        *)
(* relative to the stages.  What the real code additionally does (stop at   *)
(* the first failure; stat after format) is checked separately and only     *)
(* reported as DRIFT.                                                       *)
(*                                                                         *)
(* The spec is deterministic: an event whose guard fails marks the run      *)
(* REJECTed (printed with the names of the violated clauses) and the rest   *)
(* of that run is skipped, so one TLC pass judges every run.                *)
(***************************************************************************)
EXTENDS Integers, Sequences, FiniteSets, TLC, Json

Trace == ndJsonDeserialize("trace.ndjson")

VARIABLES l,         \* index of the next event
          run,       \* id of the current run (from its reset event)
          skipping,  \* the current run was rejected: consume up to the next reset
          s          \* abstract state of the current run

tvars == <<l, run, skipping, s>>

StageSet == {"template", "schema", "exec", "format"}
Before(st) == CASE st = "template" -> {}
                [] st = "schema" -> {"template"}
                [] st = "exec" -> {"template"}
                [] st = "format" -> {"template", "exec"}
                [] OTHER -> {"?"}

S0 == [started |-> FALSE, collected |-> {}, begun |-> {}, cur |-> "-", oks |-> {}, bad |-> FALSE,
       checked |-> FALSE, exists |-> FALSE, force |-> FALSE,
       written |-> {}, failed |-> {}, missing |-> FALSE, exited |-> FALSE, code |-> -1]

\* contract clauses per event: <<name, holds>>
Checks(e) ==
  CASE e.ev = "Parsed"    -> {<<"not-after-exit", ~s.exited>>}
    [] e.ev = "Collect"   -> {<<"not-after-exit", ~s.exited>>,
                              <<"file-not-yet-produced", e.file \notin s.begun>>}
    [] e.ev = "FileBegin" -> {<<"not-after-exit", ~s.exited>>,
                              <<"file-was-collected", e.file \in s.collected>>,
                              <<"file-produced-once", e.file \notin s.begun>>}
    [] e.ev = "Stage"     -> {<<"not-after-exit", ~s.exited>>,
                              <<"inside-a-file", s.cur # "-">>,
                              <<"known-stage", e.stage \in StageSet>>,
                              <<"stage-once", e.stage \notin s.oks>>,
                              <<"stages-in-order", Before(e.stage) \subseteq s.oks>>,
                              <<"no-stage-after-failure", ~s.bad>>,
                              <<"no-stage-after-write", s.cur \notin s.written>>}
    [] e.ev = "Generated" -> {<<"is-current-file", e.file = s.cur>>,
                              <<"all-four-stages-ok", s.oks = StageSet /\ ~s.bad>>}
    [] e.ev = "Exists"    -> {<<"not-after-exit", ~s.exited>>,
                              <<"is-current-file", e.file = s.cur>>}
    [] e.ev = "Failpoint" -> {<<"inside-a-file", s.cur # "-">>}
    [] e.ev = "Write"     -> {<<"not-after-exit", ~s.exited>>,
                              <<"is-current-file", e.file = s.cur>>,
                              <<"all-four-stages-ok", s.oks = StageSet>>,
                              <<"no-failed-step", ~s.bad>>,
                              <<"existence-checked", s.checked>>,
                              <<"absent-or-forced", s.checked => (~s.exists \/ s.force)>>,
                              <<"written-once", e.file \notin s.written>>}
    [] e.ev = "Missing"   -> {<<"not-after-exit", ~s.exited>>}
    [] e.ev = "Exit"      -> {<<"exit-once", ~s.exited>>,
                              <<"zero-only-if-all-collected-written", e.code = 0 => s.collected \subseteq s.written>>,
                              <<"zero-only-if-nothing-failed", e.code = 0 => s.failed = {}>>,
                              <<"zero-only-if-no-missing-interface", e.code = 0 => ~s.missing>>}
    [] e.ev = "ProcExit"  -> {<<"status-agrees-with-exit-event", s.exited => ((e.code = 0) <=> (s.code = 0))>>,
                              <<"zero-status-needs-exit-event-once-started", (s.started /\ ~s.exited) => e.code # 0>>}
    [] OTHER -> {<<"known-event", FALSE>>}

Guard(e) == \A c \in Checks(e) : c[2]
Why(e) == {c[1] : c \in {x \in Checks(e) : ~x[2]}}

Eff(e) ==
  CASE e.ev = "Parsed"    -> [s EXCEPT !.started = TRUE]
    [] e.ev = "Collect"   -> [s EXCEPT !.started = TRUE, !.collected = @ \cup {e.file}]
    [] e.ev = "FileBegin" -> [s EXCEPT !.begun = @ \cup {e.file}, !.cur = e.file, !.oks = {}, !.bad = FALSE,
                                       !.checked = FALSE, !.exists = FALSE, !.force = FALSE]
    [] e.ev = "Stage"     -> IF e.ok THEN [s EXCEPT !.oks = @ \cup {e.stage}]
                             ELSE [s EXCEPT !.bad = TRUE, !.failed = @ \cup {s.cur}]
    [] e.ev = "Exists"    -> [s EXCEPT !.checked = TRUE, !.exists = e.exists, !.force = e.force,
                                       \* a refused overwrite is a failed file
                                       !.failed = IF e.exists /\ ~e.force THEN @ \cup {s.cur} ELSE @]
    [] e.ev = "Failpoint" -> [s EXCEPT !.bad = TRUE, !.failed = @ \cup {s.cur}]
    [] e.ev = "Write"     -> [s EXCEPT !.written = @ \cup {e.file}]
    [] e.ev = "Missing"   -> [s EXCEPT !.missing = TRUE]
    [] e.ev = "Exit"      -> [s EXCEPT !.exited = TRUE, !.code = e.code]
    [] OTHER -> s

\* what the code as it is additionally does (code-shaped layer); a disagreement is drift, never a verdict
Strict(e) ==
  CASE e.ev \in {"FileBegin", "Stage", "Generated", "Exists", "Write", "Missing", "Collect"} ->
            IF s.failed # {} THEN {"continues-after-a-failed-file"} ELSE {}
    [] OTHER -> {}
StrictStage(e) == IF e.ev = "Stage" /\ e.stage = "exec" /\ "schema" \notin s.oks THEN {"exec-before-schema"}
                  ELSE IF e.ev = "Exists" /\ s.oks # StageSet THEN {"stat-before-format"}
                  ELSE IF e.ev = "FileBegin" /\ s.cur # "-" /\ s.cur \notin s.written THEN {"next-file-before-write"}
                  ELSE {}
Drift(e) == Strict(e) \cup StrictStage(e)

TraceInit == l = 1 /\ run = -1 /\ skipping = FALSE /\ s = S0

TraceNext ==
  /\ l <= Len(Trace)
  /\ l' = l + 1
  /\ LET e == Trace[l] IN
     IF e.ev = "reset" THEN s' = S0 /\ run' = e.run /\ skipping' = FALSE
     ELSE IF skipping THEN UNCHANGED <<run, skipping, s>>
     ELSE IF Guard(e)
          THEN /\ s' = Eff(e)
               /\ IF Drift(e) # {} THEN PrintT(<<"DRIFT", ToJson([run |-> run, at |-> l, why |-> Drift(e)])>>) ELSE TRUE
               /\ UNCHANGED <<run, skipping>>
          ELSE /\ PrintT(<<"REJECT", ToJson([run |-> run, at |-> l, why |-> Why(e), ev |-> e])>>)
               /\ skipping' = TRUE
               /\ UNCHANGED <<run, s>>

TraceSpec == TraceInit /\ [][TraceNext]_tvars

\* safety restated as state invariants of the abstract run state (redundant with the guards; cheap cross-check)
WrittenWereCollected == s.written \subseteq s.collected
WrittenNeverFailed == s.written \cap s.failed = {}
ZeroExitMeansAllWritten == s.exited /\ s.code = 0 => s.collected \subseteq s.written /\ ~s.missing

Consumed == TLCGet("stats").diameter - 1
TraceAccepted == PrintT(<<"CONSUMED", Consumed, Len(Trace)>>) /\ Consumed = Len(Trace)
=============================================================================
