------------------------- MODULE ReplaceTypeTrace -------------------------
(***************************************************************************)
(* C13, code -> spec.  One concatenated trace of every mockery run the     *)
(* check performed:                                                        *)
(*   run   (harness)  : what the run was configured to do -- the expected  *)
(*                      output files with their template and formatter     *)
(*   Collect, FileBegin, Stage, Write, Exit : hook events of the run       *)
(*                      (build tag verif), in the order they were emitted  *)
(*   obs   (harness)  : the projection of one written file onto the        *)
(*                      abstract terms of ReplaceType.tla (signatures of   *)
(*                      every mock, imports, whether the module compiled)  *)
(* The pipeline events must be the run the case asked for (right template  *)
(* and formatter for the file, all four stages passed before the write,    *)
(* every expected file written, exit 0), otherwise the trace is not        *)
(* consumed; for every obs event TLC prints whether the observed outcome   *)
(* is one the CONTRACT accepts (Accept with the setting, Base without it)  *)
(* and the output compiled.                                                *)
(***************************************************************************)
EXTENDS ReplaceTypeContract

Trace == ndJsonDeserialize("trace.ndjson")

VARIABLES l,        \* next event
          expect,   \* file -> [template, formatter] of the current run
          cur,      \* file being generated
          stage,    \* stages passed for cur: 0..4
          written,  \* files written in this run
          exited    \* run finished with exit 0 and everything written

tvars == <<l, expect, cur, stage, written, exited>>

ToSet(s) == {s[i] : i \in 1..Len(s)}
Ev == Trace[l]
IsEvent(e) == l <= Len(Trace) /\ Trace[l].ev = e /\ l' = l + 1

StageNo(s) == CASE s = "template" -> 1 [] s = "schema" -> 2 [] s = "exec" -> 3 [] s = "format" -> 4 [] OTHER -> 99

TraceInit == l = 1 /\ expect = << >> /\ cur = "" /\ stage = 0 /\ written = {} /\ exited = FALSE

RunEv ==
  /\ IsEvent("run")
  /\ expect' = [f \in {Ev.files[i].file : i \in 1..Len(Ev.files)} |->
                  LET r == CHOOSE i \in 1..Len(Ev.files) : Ev.files[i].file = f
                  IN [template |-> Ev.files[r].template, formatter |-> Ev.files[r].formatter]]
  /\ cur' = "" /\ stage' = 0 /\ written' = {} /\ exited' = FALSE

CollectEv ==
  /\ IsEvent("Collect") /\ ~exited
  /\ Ev.file \in DOMAIN expect /\ Ev.template = expect[Ev.file].template
  /\ UNCHANGED <<expect, cur, stage, written, exited>>

FileBeginEv ==
  /\ IsEvent("FileBegin") /\ ~exited /\ cur = ""     \* the previous file was written
  /\ Ev.file \in DOMAIN expect /\ Ev.file \notin written
  /\ cur' = Ev.file /\ stage' = 0
  /\ UNCHANGED <<expect, written, exited>>

StageEv ==
  /\ IsEvent("Stage") /\ ~exited /\ cur # ""
  /\ Ev.ok = TRUE
  /\ StageNo(Ev.stage) = stage + 1
  /\ (Ev.stage = "template" => Ev.template = expect[cur].template)
  /\ (Ev.stage = "format" => Ev.formatter = expect[cur].formatter)
  /\ stage' = stage + 1
  /\ UNCHANGED <<expect, cur, written, exited>>

WriteEv ==
  /\ IsEvent("Write") /\ ~exited
  /\ Ev.file = cur /\ stage = 4
  /\ written' = written \cup {cur} /\ cur' = "" /\ stage' = 0
  /\ UNCHANGED <<expect, exited>>

ExitEv ==
  /\ IsEvent("Exit") /\ ~exited
  /\ Ev.code = 0 /\ written = DOMAIN expect
  /\ exited' = TRUE
  /\ UNCHANGED <<expect, cur, stage, written>>

\* the observed outcome is acceptable to the contract
ObsAccepted(e) ==
  LET acc == IF e.with THEN Accept(e.pos, e.other, e.srckind, e.target, e.level)
                       ELSE {Base(e.pos, e.other, e.srckind, e.target, e.level)}
      imps == ToSet(e.imports)
  IN /\ \E oc \in acc : /\ oc.mocks = e.mocks
                        /\ oc.req \subseteq imps
                        /\ oc.forb \cap imps = {}
     /\ e.built = TRUE

\* never blocks: the verdict on every observation is printed, so that one TLC run judges them all
ObsEv ==
  /\ IsEvent("obs") /\ exited
  /\ Ev.file \in written
  /\ PrintT(<<"OBSV", ToJson([case |-> Ev.case, with |-> Ev.with, ok |-> ObsAccepted(Ev)])>>)
  /\ UNCHANGED <<expect, cur, stage, written, exited>>

\* no-leak family: one package of a multi-package run, judged by LAccept / LBase
LObsAccepted(e) ==
  LET w    == {<<e.writes[i][1], e.writes[i][2]>> : i \in 1..Len(e.writes)}
      acc  == IF e.with THEN LAccept(w, e.pkg) ELSE {LBase}
      imps == ToSet(e.imports)
  IN /\ \E oc \in acc : oc.mocks = e.mocks /\ oc.req \subseteq imps /\ oc.forb \cap imps = {}
     /\ e.built = TRUE
LObsEv ==
  /\ IsEvent("lobs") /\ exited
  /\ Ev.file \in written
  /\ PrintT(<<"OBSV", ToJson([case |-> Ev.case, with |-> Ev.with, ok |-> LObsAccepted(Ev)])>>)
  /\ UNCHANGED <<expect, cur, stage, written, exited>>

\* events of the run that carry nothing C13 speaks about
OtherEv ==
  /\ l <= Len(Trace)
  /\ Trace[l].ev \in {"InitBegin", "InitPkg", "InitEnd", "Parsed", "Select", "ResolveIter", "Resolved", "Generated", "Exists",
                      "Recursive", "Inject", "Exclude"}
  /\ l' = l + 1
  /\ UNCHANGED <<expect, cur, stage, written, exited>>

TraceNext == RunEv \/ CollectEv \/ FileBeginEv \/ StageEv \/ WriteEv \/ ExitEv \/ ObsEv \/ LObsEv \/ OtherEv
TraceSpec == TraceInit /\ [][TraceNext]_tvars

Consumed == TLCGet("stats").diameter - 1
TraceAccepted == PrintT(<<"CONSUMED", Consumed, Len(Trace)>>) /\ Consumed = Len(Trace)
=============================================================================
