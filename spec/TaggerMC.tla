------------------------------ MODULE TaggerMC ------------------------------
(* Model constants for Tagger.tla (cfg files cannot spell records); tables in TaggerTables.tla. *)
EXTENDS Tagger, TaggerTables

MCKinds == {"light", "annotated"}
MCFlags == {"absent", "true", "false"}

MCTagNamesQ == {"v3.0.1", "3.0.1", "v3.1.0-rc.1", "v3.1.0-alpha.10", "v3.1.0", "v4.0.0", "v3", "latest"}
\* abbreviated spellings (two-part, v-less, major-only) are in the quick tier on purpose: the tag must still be
\* named after the canonical version
MCRequestsQ == {"v3.0.1", "v3.1.0-alpha.2", "v3.1.0", "v3.1", "v4", "<missing>"}
\* every work-tree state of TaggerWorktree.tla (content, mode-only, deletion, rename, untracked, ignored, symlink,
\* type change, stat-only and combinations); "clean" itself is the initial state
MCDirtyAll  == WtNames \ {"clean"}
MCDirtyQ    == MCDirtyAll
\* the simulated long histories draw one Touch among many other steps: a smaller alphabet, one state per family
MCDirtyS    == {"modified", "staged", "untracked", "deleted", "chmod", "renamed", "ignored", "rewritten", "typechange"}

MCNoBump == {}
MCBranchQ == {<<"v3", "branch">>, <<"v4", "branch">>, <<"v3", "current">>, <<"v4", "remote">>, <<"v3.1.0", "branch">>}
MCBranchT == {<<"v3", "branch">>, <<"v4", "current">>, <<"v3", "remote">>}
MCTreeQ == {"v3.1.0"}
MCTreeT == {"v3.1.0", "v3"}
\* simulated long histories: few names so that invocations meet tags that matter
MCTagNamesS == {"v3.1.0-rc.1", "3.0.1", "v3", "latest", "v4.0.0", "v3.1", "rel.2024.01", "v3.1-alpha.1", "v4"}
MCRequestsS == {"v3.0.1", "v3.1.0-rc.1", "v3.1.0", "v4.0.0", "3.1.0", "v0.0.0", "banana", "v3.1", "3.1", "v4", "v3.1.0+build.5", "v03.1.0", ""}

MCTagNamesT == MCTagNamesQ \cup {"release/v3.1.0"}
\* the remaining spellings (3.1.0, v03.1.0, v4.0.0, empty VERSION) are driven by the simulated histories, <missing> by quick
MCRequestsT == {"v3.0.1", "v3.1.0-alpha.2", "v3.1.0-rc.1", "v3.1.0", "v3.1", "3.1", "v4", "v3.1.0+build.5", "v0.0.0", "banana"}
MCDirtyT    == MCDirtyAll
MCDeepQ     == {"modified", "staged", "untracked", "deleted"}
\* (thorough: histories of 4 actions; the five states of the earlier alphabet + a mode-only one at any point)
MCDeepT     == {"modified", "staged", "untracked", "deleted", "ignored", "chmod"}
=============================================================================
