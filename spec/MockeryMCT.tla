----------------------------- MODULE MockeryMCT -----------------------------
(* Thorough-tier worlds of the root specification.  A module of its own: TLC evaluates every zero-arity constant
   definition at start-up, so the big set must not sit next to the quick one. *)
EXTENDS MockeryMC

Thorough == Quick
            \cup Levels({{}, Lv4, {"root"}, {"a.A1"}, {"a"}, {"a.A1.1"}, {"root", "a.A1.1"}, {"a", "a.A1"}})
            \cup CrossRef({{"a"}, {"root", "a.A1"}})
            \cup SelectW({"S1", "S2", "S3"}, {{}, {"A2"}, {"A1", "A2", "B1"}}, PerE)
            \cup Recur(BOOLEAN, PerE, <<"ab">>) \cup Recur(BOOLEAN, {}, <<"abc">>) \cup Recur(BOOLEAN, {}, <<"ab", "abc">>) \cup Recur2(PerI, {"U", "T"}) \cup Recur2({}, {"T"})
            \cup FsWorlds(Bg5, SUBSET FilesOf(Bg5)) \cup FsWorlds(Bg3, SUBSET FilesOf(Bg3))
            \cup Schema(Bg6) \cup PerFile(Bg5) \cup Levels({{}, Lv4}) \cup Fault(Bg4)
            \cup Fault(Bg5) \cup Sources(Bg5) \cup Commands(Bg5) \cup BuildTags(Bg5)
            \cup Locate(Bg3, AllModes, LY!ModDirs, {"run", "showconfig"})
            \cup {[x EXCEPT !.occ = CFiles(x), !.cfg = Over(x.cfg, CfgOf({<<"env", "force-file-write", TRUE>>}))] :
                    x \in SelectW({"S1"}, {{}, {"A2"}}, {}) \cup Recur(BOOLEAN, {}, <<"ab">>)}
            \cup {[x EXCEPT !.fp = [point |-> pt, key |-> f]] : x \in FsWorlds(Bg5, {{}, FilesOf(Bg5)}), pt \in {"stat", "write"}, f \in FilesOf(Bg5)}

ThoroughEnv == EnvParams({"title", "mixed"})
MCThorough == {x \in ThoroughEnv : WellFormed(x)} \cup {x \in Thorough : WellFormed(x)}
=============================================================================
