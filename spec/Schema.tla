------------------------------- MODULE Schema -------------------------------
(***************************************************************************)
(* C12 -- template-data is validated against the template's JSON schema at *)
(* every level before anything is written.                                 *)
(*                                                                         *)
(* World of a case: one source package with two interfaces.                *)
(*    A1            one mock        -> output file F1                      *)
(*    A2            two mocks e1,e2 -> output file F2 (same file)          *)
(* Config levels: root, pkg, iA1, iA2 (interface `config:`), e1, e2        *)
(* (entries of A2's `configs:` list).  A1's only entry is its `config:`.   *)
(*                                                                         *)
(* template-data at a level is a partial map key -> kind of value          *)
(* ("str", "bool", "int", "obj"; "strT" / "str1" are strings that PRINT     *)
(* like the boolean true / the integer 1 -- values that differ from a      *)
(* conforming one in JSON type only; "strOff" a string outside an enum;    *)
(* "obj"/"objM"/"objNM" nested maps, "arr"/"arrBad" lists; "null" is the   *)
(* JSON null: an ordinary  *)
(* value for the key-wise merge -- the most specific level that mentions   *)
(* the key wins, also with null (observed on the unchanged tree: null      *)
(* never "unsets") -- and of a type no typed property accepts).  A schema  *)
(* is                                                                      *)
(*    [req: required keys, open: additionalProperties, types: key -> kind] *)
(*                                                                         *)
(* Contract layer: FileVerdict(c, f) -- the property as a function of the  *)
(*   case.  Code-shaped layer: cmd/mockery.go:309-376 (files in Go map     *)
(*   order, first error aborts the run) and template_generator.go:330-394, *)
(*   remote_template.go (per-run cache of remote templates and schemas).   *)
(***************************************************************************)
EXTENDS Naturals, Sequences, FiniteSets, TLC, Json

CONSTANTS BuiltinSchemas,       \* template name -> schema record (from the two *.schema.json files)
          Shapes,               \* shape id -> schema record (custom schemas)
          CacheKeyedByTemplateOnly   \* FALSE = the code as it is; TRUE = the repaired defect D6, for a witness run

Levels == {"root", "pkg", "iA1", "iA2", "e1", "e2"}
Files  == {"F1", "F2"}
Mocks  == {"A1", "e1", "e2"}
MocksOf(f) == IF f = "F1" THEN <<"A1">> ELSE <<"e1", "e2">>      \* in the order they are added to the file
\* most specific level first
ChainOfMock(m) == CASE m = "A1" -> <<"iA1", "pkg", "root">>
                    [] m = "e1" -> <<"e1", "iA2", "pkg", "root">>
                    [] m = "e2" -> <<"e2", "iA2", "pkg", "root">>
ChainOfFile     == <<"pkg", "root">>                            \* file-level data = the package's effective map
FirstMock(f)    == MocksOf(f)[1]                                \* per-file parameters come from the first mock

Builtin(t) == t \in DOMAIN BuiltinSchemas

-----------------------------------------------------------------------------
(* Effective values: the most specific level that sets a thing wins (C08) *)

\* data: level -> (key -> kind)
\* nested-map values: "obj" = {n: 1}, "objM" = {m: "x"}, "objNM" = {n: 1, m: "x"} (what merging the two gives)
ObjKinds == {"obj", "objM", "objNM"}
ObjUnion(a, b) == IF a = b THEN a ELSE "objNM"

RECURSIVE EffData(_, _)
EffData(data, chain) ==
  IF Len(chain) = 0 THEN << >>
  ELSE LET rest == EffData(data, Tail(chain))
           own  == data[chain[1]]
       IN [k \in DOMAIN own \cup DOMAIN rest |->
             IF k \notin DOMAIN own THEN rest[k]
             ELSE IF k \in DOMAIN rest /\ own[k] \in ObjKinds /\ rest[k] \in ObjKinds
                  THEN ObjUnion(own[k], rest[k])          \* nested maps are merged (config.go mergeStringMaps)
             ELSE own[k]]

\* setting: level -> value or "unset"
RECURSIVE EffSetting(_, _, _)
EffSetting(s, chain, default) ==
  IF Len(chain) = 0 THEN default
  ELSE IF s[chain[1]] # "unset" THEN s[chain[1]] ELSE EffSetting(s, Tail(chain), default)

FileData(c)    == EffData(c.data, ChainOfFile)
MockData(c, m) == EffData(c.data, ChainOfMock(m))

\* the template of an output file: `template` of its first mock (all mocks of a file must agree), root value c.tmpl
Tmpl(c, f)      == EffSetting(c.tpl, ChainOfMock(FirstMock(f)), c.tmpl)
Require(c, f)   == EffSetting(c.req, ChainOfMock(FirstMock(f)), "true") = "true"       \* default: true
\* default: <template>.schema.json; "perif": a template-schema that mentions {{.InterfaceName}} -- one location per interface
SchemaLoc(c, f) == LET s == EffSetting(c.tsch, ChainOfMock(FirstMock(f)), "default") IN
                   IF s = "perif" THEN (IF f = "F1" THEN "pA1" ELSE "pA2") ELSE s

-----------------------------------------------------------------------------
(* Contract *)

\* A schema says, per key it knows, which kinds of value it accepts (types: key -> set of kinds): that covers
\* "type", "enum", nested "properties"/"required"/"additionalProperties", "items", "$ref"; how a value prints is
\* irrelevant.  none = the schema `false` (nothing is valid); the schema `true` is open with no keys.
Valid(m, S) == /\ ~S.none
               /\ S.req \subseteq DOMAIN m
               /\ ~S.open => DOMAIN m \subseteq DOMAIN S.types
               /\ \A k \in DOMAIN m \cap DOMAIN S.types : m[k] \in S.types[k]

IsShape(st) == st \in DOMAIN Shapes

\* the schema that applies to file f, or why there is none
\* A built-in template has its built-in schema, whatever template-schema / require-template-schema-exists the
\* file inherits from levels where a custom template is configured.
SchemaState(c, f) == IF Builtin(Tmpl(c, f)) THEN "builtin" ELSE c.loc[SchemaLoc(c, f)]
SchemaOf(c, f)    == IF Builtin(Tmpl(c, f)) THEN BuiltinSchemas[Tmpl(c, f)] ELSE Shapes[SchemaState(c, f)]
Available(c, f)   == Builtin(Tmpl(c, f)) \/ IsShape(SchemaState(c, f))

AllValid(c, f) == /\ Valid(FileData(c), SchemaOf(c, f))
                  /\ \A j \in 1..Len(MocksOf(f)) : Valid(MockData(c, MocksOf(f)[j]), SchemaOf(c, f))

\* "ok"     the file must be written when the run succeeds, and the run must not fail because of it
\* "bad"    the run must fail and the file must not be written (an existing file stays as it is)
\* "either" require-template-schema-exists is false and a schema would have been retrievable and is violated:
\*          the documentation says no validation happens, the property text says data is validated --
\*          both behaviours are accepted
FileVerdict(c, f) ==
  IF Builtin(Tmpl(c, f)) THEN (IF AllValid(c, f) THEN "ok" ELSE "bad")
  ELSE IF Require(c, f) THEN (IF Available(c, f) /\ AllValid(c, f) THEN "ok" ELSE "bad")
  ELSE IF Available(c, f) /\ ~AllValid(c, f) THEN "either" ELSE "ok"

\* must the data of f be validated before it is written?  "yes" | "no" | "any"
MustValidate(c, f) ==
  IF Builtin(Tmpl(c, f)) THEN "yes"
  ELSE IF Require(c, f) THEN (IF Available(c, f) THEN "yes" ELSE "fail")     \* "fail": fetching the schema must fail
  ELSE IF Available(c, f) THEN "any" ELSE "no"

\* which of the maps of f violate f's schema ("file" = file-level data, else the mock)
BadMaps(c, f) ==
  IF ~Available(c, f) THEN {}
  ELSE (IF Valid(FileData(c), SchemaOf(c, f)) THEN {} ELSE {"file"})
       \cup {MocksOf(f)[j] : j \in {j \in 1..Len(MocksOf(f)) : ~Valid(MockData(c, MocksOf(f)[j]), SchemaOf(c, f))}}

Expect(c) == [f \in Files |-> [verdict |-> FileVerdict(c, f), validate |-> MustValidate(c, f),
                                require |-> Require(c, f), loc |-> SchemaLoc(c, f),
                                state |-> SchemaState(c, f), bad_maps |-> BadMaps(c, f), tmpl |-> Tmpl(c, f)]]
RunMustFail(c)    == \E f \in Files : FileVerdict(c, f) = "bad"
RunMustSucceed(c) == \A f \in Files : FileVerdict(c, f) = "ok"

-----------------------------------------------------------------------------
(* Code-shaped layer *)

VARIABLES case,
          pendingF,    \* files not yet generated (range over a Go map)
          cur,         \* file being generated, or "-"
          pc,          \* "pick" | "template" | "schema" | "write" | "exit0" | "exit1"
          cache,       \* cache key -> [sdl: schema download attempted, schema: state or "nil"]
          sch,         \* what getTemplate returned for cur: a schema state, or "nil"
          written,     \* files written
          validated    \* files whose data went through validateSchema

vars == <<case, pendingF, cur, pc, cache, sch, written, validated>>

InitWith(c) == /\ case = c
               /\ pendingF = Files
               /\ cur = "-"
               /\ pc = "pick"
               /\ cache = << >>
               /\ sch = "nil"
               /\ written = {}
               /\ validated = {}

\* mockery.go:309  for outFilePath, interfacesInFile := range mockFileToInterfaces
Pick(f) == /\ pc = "pick" /\ f \in pendingF
           /\ cur' = f /\ pendingF' = pendingF \ {f} /\ pc' = "template"
           /\ UNCHANGED <<case, cache, sch, written, validated>>

Done == /\ pc = "pick" /\ pendingF = {}
        /\ pc' = "exit0"
        /\ UNCHANGED <<case, pendingF, cur, cache, sch, written, validated>>

CacheKey(f) == IF CacheKeyedByTemplateOnly THEN <<Tmpl(case, f)>> ELSE <<Tmpl(case, f), SchemaLoc(case, f)>>

\* template_generator.go:330-379 + remote_template.go:90-110
GetTemplate ==
  /\ pc = "template"
  /\ IF Builtin(Tmpl(case, cur))
     THEN sch' = "builtin" /\ pc' = "schema" /\ UNCHANGED cache
     ELSE LET key   == CacheKey(cur)
              known == key \in DOMAIN cache
              \* a cached RemoteTemplate keeps the schema URL it was created with
              ent   == IF known THEN cache[key] ELSE [sdl |-> FALSE, schema |-> "nil", loc |-> SchemaLoc(case, cur)]
          IN IF ~Require(case, cur)
             THEN /\ sch' = "nil" /\ pc' = "schema"
                  /\ cache' = [k \in DOMAIN cache \cup {key} |-> IF k = key THEN ent ELSE cache[k]]
             ELSE IF ent.sdl
                  THEN /\ sch' = ent.schema /\ pc' = "schema"      \* served from the cache (may be nil, remote_template.go:109)
                       /\ cache' = [k \in DOMAIN cache \cup {key} |-> IF k = key THEN ent ELSE cache[k]]
                  ELSE LET st == case.loc[ent.loc] IN
                       /\ cache' = [k \in DOMAIN cache \cup {key} |->
                                      IF k = key THEN [ent EXCEPT !.sdl = TRUE, !.schema = IF IsShape(st) THEN st ELSE "nil"]
                                      ELSE cache[k]]
                       /\ IF IsShape(st) THEN sch' = st /\ pc' = "schema"
                          ELSE sch' = "nil" /\ pc' = "exit1"          \* download / parse error aborts the run
  /\ UNCHANGED <<case, pendingF, cur, written, validated>>

SchemaRec(s) == IF s = "builtin" THEN BuiltinSchemas[Tmpl(case, cur)] ELSE Shapes[s]      \* compiled per file

\* template_generator.go:381-394, 470-478
Validate ==
  /\ pc = "schema"
  /\ IF sch = "nil"
     THEN pc' = "write" /\ UNCHANGED validated
     ELSE IF /\ Valid(FileData(case), SchemaRec(sch))
             /\ \A j \in 1..Len(MocksOf(cur)) : Valid(MockData(case, MocksOf(cur)[j]), SchemaRec(sch))
          THEN pc' = "write" /\ validated' = validated \cup {cur}
          ELSE pc' = "exit1" /\ UNCHANGED validated
  /\ UNCHANGED <<case, pendingF, cur, cache, sch, written>>

Write == /\ pc = "write"
         /\ written' = written \cup {cur}
         /\ pc' = "pick"
         /\ UNCHANGED <<case, pendingF, cur, cache, sch, validated>>

Next == (\E f \in Files : Pick(f)) \/ Done \/ GetTemplate \/ Validate \/ Write

-----------------------------------------------------------------------------
(* The contract as invariants of the code-shaped layer *)

TypeOK == pc \in {"pick", "template", "schema", "write", "exit0", "exit1"} /\ written \subseteq Files

\* nothing is written for a file whose data violates its schema, or whose schema is required and missing
WriteOnlyIfAcceptable == \A f \in written : FileVerdict(case, f) # "bad"
\* a written file went through validation whenever the contract requires validation
ValidatedBeforeWrite  == \A f \in written : MustValidate(case, f) = "yes" => f \in validated
ValidateBeforeWritePc == pc = "write" /\ MustValidate(case, cur) = "yes" => cur \in validated
\* exit status
SuccessMeansAllWritten == pc = "exit0" => written = Files /\ ~RunMustFail(case)
FailureHasAReason      == pc = "exit1" => ~RunMustSucceed(case)

-----------------------------------------------------------------------------
Emit ==
  IF pc = "pick" /\ pendingF = Files     \* once per case (the initial state)
  THEN PrintT(<<"CASE", ToJson([id |-> case.id, tmpl |-> case.tmpl, tpl |-> case.tpl, loc |-> case.loc, tsch |-> case.tsch,
                                 req |-> case.req, data |-> case.data, pre |-> case.pre, fam |-> case.fam,
                                 expect |-> Expect(case),
                                 must_fail |-> RunMustFail(case), must_succeed |-> RunMustSucceed(case)])>>)
  ELSE TRUE
=============================================================================
