------------------------------ MODULE FuncLib ------------------------------
(***************************************************************************)
(* C16 -- the template function library (template_funcs/funcmap.go,        *)
(* template_funcs/functions.go) is total and computes what it documents.   *)
(*                                                                         *)
(* Strings are sequences over an ABSTRACT RUNE ALPHABET.  A token is one   *)
(* UTF-8 sequence (or one invalid byte):                                   *)
(*    "a".."z" "A".."Z" "0".."9"  and every other one-character token:     *)
(*                      the ASCII character itself (1 byte)                *)
(*    "ee" = e-acute  (lower-case letter, 2 bytes C3 A9)                   *)
(*    "EE" = E-acute  (upper-case letter, 2 bytes C3 89)                   *)
(*    "zh" = U+4E2D   (letter without case, 3 bytes)                       *)
(*    "xff"           (one byte 0xFF: invalid UTF-8)                       *)
(*    "fffd" = U+FFFD (replacement character, 3 bytes; appears in replies) *)
(*    "bs" = backslash, "tab", "nl" (one byte each)                        *)
(*  letters whose case mapping CHANGES the encoded length (a result built  *)
(*  by skipping len(upper) instead of len(first) bytes is wrong for them):  *)
(*    "dli" = U+0131 dotless i (lower, 2 bytes)  -> upper "I" (1 byte)      *)
(*    "ls"  = U+017F long s    (lower, 2 bytes)  -> upper "S" (1 byte)      *)
(*    "tua" = U+0250 turned a  (lower, 2 bytes) <-> "TUA" U+2C6F (3 bytes)  *)
(*    "ast" = U+2C65 a-stroke  (lower, 3 bytes) <-> "AST" U+023A (2 bytes)  *)
(*    "kel" = U+212A Kelvin    (upper, 3 bytes)  -> lower "k" (1 byte)      *)
(*  Up/Lo are therefore not inverse of each other: Lo(Up("dli")) = "i".    *)
(*  a letter with THREE cases (upper-casing is not title-casing):          *)
(*    "dz" = U+01C6 (lower)   "Dz" = U+01C5 (TITLE case: a letter that is  *)
(*    neither lower nor upper)   "DZ" = U+01C4 (upper); 2 bytes each       *)
(*    "cm" = U+0301 combining acute accent (a mark, not a letter; 2 bytes) *)
(* The alphabet separates byte-indexing from rune-indexing: the byte model *)
(* (Bytes/Decode/Tok below) gives every token its byte length, and a lone  *)
(* byte of a multi-byte token is not a token ("bad").                      *)
(*                                                                         *)
(* Layers                                                                  *)
(*   Contract  Expect(fn, args): what the documentation says.  String      *)
(*             wrappers are "the Go namesake with the subject string as    *)
(*             LAST argument" (Std* operators are written in the           *)
(*             namesake's own argument order; Table records the subject);  *)
(*             exported / firstIsLower / case / arithmetic have their own  *)
(*             reference semantics.                                        *)
(*   Impl      ImplCall(fn, args): shaped like the code -- one line per    *)
(*             funcmap.go entry (explicit argument permutation), byte      *)
(*             level DecodeRune model of Exported/FirstIsLower, left folds *)
(*             for the arithmetic helpers.  ExportedImpl = "byte" is the   *)
(*             pre-d879be0 code (D15), kept as a negated witness: TLC must *)
(*             find ImplMatchesContract violated for it.                   *)
(* TLC enumerates every argument tuple of FuncLibMC!CaseChoice, checks          *)
(* Impl = Contract on each and exports the contract value with the case.   *)
(***************************************************************************)
EXTENDS Integers, Sequences, FiniteSets, TLC, Json

CONSTANTS ExportedImpl    \* "rune" (code as it is) | "byte" (before fix d879be0) | "upsize" (skips len(upper) bytes)

VARIABLES fn, args, phase, reply
vars == <<fn, args, phase, reply>>

---------------------------------------------------------------------------
(* typed values: what crosses the template boundary *)
S(v) == [t |-> "s", v |-> v]       \* string = sequence of tokens
B(v) == [t |-> "b", v |-> v]       \* bool
I(v) == [t |-> "i", v |-> v]       \* int
L(v) == [t |-> "l", v |-> v]       \* []string
Q(v) == [t |-> "q", v |-> v]       \* float64 given in quarters (v/4)
P(v) == [t |-> "p", v |-> v]       \* abstract path for readFile: "" | "file" | "dir" | "missing"
N(v) == [t |-> "n", v |-> v]       \* an int NAMED by its decimal text: magnitudes beyond TLC's 32-bit integers
ENV(v) == [t |-> "env", v |-> v]   \* the process environment (name -> value string): the implicit argument of getenv / expandEnv
Undef == [t |-> "undef"]           \* outside the domain: an error or any value, never a crash
Err   == [t |-> "err"]             \* a template error is the documented outcome
OneOf(vs) == [t |-> "oneof", v |-> vs]   \* the documentation leaves it open: any of these strings
Std   == [t |-> "std"]             \* decided by the Go namesake alone (harness computes it)
Shape == [t |-> "shape"]           \* only shape invariants (ShapeOK) and totality
\* "equal integer arithmetic over all their arguments" for operands TLC cannot hold: the value of the LEFT fold
\* ((a op b) op c) ... in exact integers, DEFINED whenever every intermediate of that left fold is an int64 and
\* no divisor is zero (then no evaluation order may be visible); otherwise outside the domain (like Undef).
\* The exact fold is computed by drivers/funclib with math/big (independent of template_funcs).
Fold64 == [t |-> "fold64"]

---------------------------------------------------------------------------
(* rune alphabet and class table *)
LowerSeq == <<"a","b","c","d","e","f","g","h","i","j","k","l","m","n","o","p","q","r","s","t","u","v","w","x","y","z">>
UpperSeq == <<"A","B","C","D","E","F","G","H","I","J","K","L","M","N","O","P","Q","R","S","T","U","V","W","X","Y","Z">>
LowerA == {LowerSeq[i] : i \in 1..26}
UpperA == {UpperSeq[i] : i \in 1..26}
Digits == {"0","1","2","3","4","5","6","7","8","9"}
Pos(seq, x) == CHOOSE i \in DOMAIN seq : seq[i] = x

IsLowerRune(t) == t \in LowerA \cup {"ee", "dli", "ls", "tua", "ast", "dz"}
IsUpperRune(t) == t \in UpperA \cup {"EE", "TUA", "AST", "kel", "DZ"}
IsLetterRune(t) == IsLowerRune(t) \/ IsUpperRune(t) \/ t \in {"zh", "Dz"}
IsSpaceRune(t) == t \in {" ", "tab", "nl"}
IsInvalid(t) == t = "xff"
IsSep(t) == t \in {"_", "-", " ", "tab", "nl"}   \* word separators of the case converters (incl. white space)
IsWordRune(t) == IsLetterRune(t) \/ t \in Digits \/ IsSep(t)
ByteLen(t) == CASE t \in {"ee", "EE", "dli", "ls", "tua", "AST", "dz", "Dz", "DZ", "cm"} -> 2
                [] t \in {"zh", "fffd", "TUA", "ast", "kel"} -> 3
                [] OTHER -> 1

\* unicode.ToUpper / unicode.ToLower
Up(t) == CASE t \in LowerA -> UpperSeq[Pos(LowerSeq, t)]
           [] t = "ee" -> "EE" [] t = "dli" -> "I" [] t = "ls" -> "S" [] t = "tua" -> "TUA" [] t = "ast" -> "AST"
           [] t \in {"dz", "Dz"} -> "DZ"
           [] OTHER -> t
Lo(t) == CASE t \in UpperA -> LowerSeq[Pos(UpperSeq, t)]
           [] t = "EE" -> "ee" [] t = "TUA" -> "tua" [] t = "AST" -> "ast" [] t = "kel" -> "k"
           [] t \in {"DZ", "Dz"} -> "dz"
           [] OTHER -> t
\* strings.ToUpper/ToLower go through strings.Map: an invalid byte comes out as U+FFFD
UpS(t) == IF IsInvalid(t) THEN "fffd" ELSE Up(t)
LoS(t) == IF IsInvalid(t) THEN "fffd" ELSE Lo(t)

---------------------------------------------------------------------------
(* sequence helpers *)
Take(s, k) == SubSeq(s, 1, k)
Drop(s, k) == SubSeq(s, k + 1, Len(s))
Last(s) == s[Len(s)]
Front(s) == SubSeq(s, 1, Len(s) - 1)
RangeOf(s) == {s[i] : i \in DOMAIN s}
MapSeq(F(_), s) == [i \in 1..Len(s) |-> F(s[i])]
Norm(s) == SubSeq(s, 1, Len(s))                 \* a plain tuple (for ToJson)
IsPrefix(p, s) == Len(p) <= Len(s) /\ Take(s, Len(p)) = p
IsSuffix(p, s) == Len(p) <= Len(s) /\ Drop(s, Len(s) - Len(p)) = p
\* strings.Index: smallest offset (in tokens) at which sub occurs, -1 if none
Index(s, sub) ==
  IF \E i \in 0..Len(s) : IsPrefix(sub, Drop(s, i))
  THEN CHOOSE i \in 0..Len(s) : IsPrefix(sub, Drop(s, i)) /\ \A j \in 0..(i - 1) : ~IsPrefix(sub, Drop(s, j))
  ELSE -1
Dec(n) == IF n > 0 THEN n - 1 ELSE n

---------------------------------------------------------------------------
(* Go standard library namesakes, in THEIR argument order (subject first) *)
StdContains(s, sub) == Index(s, sub) >= 0
StdHasPrefix(s, p) == IsPrefix(p, s)
StdHasSuffix(s, p) == IsSuffix(p, s)
StdTrimPrefix(s, p) == IF IsPrefix(p, s) THEN Drop(s, Len(p)) ELSE s
StdTrimSuffix(s, p) == IF IsSuffix(p, s) THEN Take(s, Len(s) - Len(p)) ELSE s
\* cutsets are sets of runes; every invalid byte decodes to RuneError, so invalid matches invalid
InCut(t, cut) == t \in RangeOf(cut)
RECURSIVE StdTrimLeft(_, _)
StdTrimLeft(s, cut) == IF s # <<>> /\ InCut(Head(s), cut) THEN StdTrimLeft(Tail(s), cut) ELSE s
RECURSIVE StdTrimRight(_, _)
StdTrimRight(s, cut) == IF s # <<>> /\ InCut(Last(s), cut) THEN StdTrimRight(Front(s), cut) ELSE s
StdTrim(s, cut) == StdTrimLeft(StdTrimRight(s, cut), cut)
RECURSIVE TrimSpL(_)
TrimSpL(s) == IF s # <<>> /\ IsSpaceRune(Head(s)) THEN TrimSpL(Tail(s)) ELSE s
RECURSIVE TrimSpR(_)
TrimSpR(s) == IF s # <<>> /\ IsSpaceRune(Last(s)) THEN TrimSpR(Front(s)) ELSE s
StdTrimSpace(s) == TrimSpL(TrimSpR(s))

\* strings.Replace: first n non-overlapping instances (all if n < 0); an empty old matches before
\* every UTF-8 sequence and at the end
RECURSIVE RepEmpty(_, _, _)
RepEmpty(s, new, n) == IF n = 0 THEN s
                       ELSE IF s = <<>> THEN new
                       ELSE new \o <<Head(s)>> \o RepEmpty(Tail(s), new, Dec(n))
RECURSIVE StdReplace(_, _, _, _)
StdReplace(s, old, new, n) ==
  IF n = 0 THEN s
  ELSE IF old = <<>> THEN RepEmpty(s, new, n)
  ELSE LET i == Index(s, old) IN
       IF i < 0 THEN s ELSE Take(s, i) \o new \o StdReplace(Drop(s, i + Len(old)), old, new, Dec(n))
StdReplaceAll(s, old, new) == StdReplace(s, old, new, -1)

\* strings.genSplit: n = 0 -> nil; empty sep explodes into UTF-8 sequences; at most n pieces, the last
\* one is the unsplit remainder; save = number of separator tokens kept with each piece
RECURSIVE Explode(_, _)
Explode(s, n) == IF s = <<>> THEN <<>>
                 ELSE IF n = 1 \/ Len(s) = 1 THEN <<s>>
                 ELSE <<<<Head(s)>>>> \o Explode(Tail(s), Dec(n))
RECURSIVE GenSplit(_, _, _, _)
GenSplit(s, sep, save, n) ==
  LET i == Index(s, sep) IN
  IF n = 1 \/ i < 0 THEN <<s>>
  ELSE <<Take(s, i + save)>> \o GenSplit(Drop(s, i + Len(sep)), sep, save, Dec(n))
SplitGen(s, sep, after, n) == IF n = 0 THEN <<>>
                              ELSE IF sep = <<>> THEN Explode(s, n)
                              ELSE GenSplit(s, sep, IF after THEN Len(sep) ELSE 0, n)
StdSplit(s, sep) == SplitGen(s, sep, FALSE, -1)
StdSplitAfter(s, sep) == SplitGen(s, sep, TRUE, -1)
StdSplitAfterN(s, sep, n) == SplitGen(s, sep, TRUE, n)
RECURSIVE StdJoin(_, _)
StdJoin(elems, sep) == IF elems = <<>> THEN <<>>
                       ELSE IF Len(elems) = 1 THEN elems[1]
                       ELSE elems[1] \o sep \o StdJoin(Tail(elems), sep)
StdToLower(s) == MapSeq(LoS, s)
StdToUpper(s) == MapSeq(UpS, s)

\* math.Floor / Ceil / Round (half away from zero) on quarters; the result is an integer
QFloor(q) == q \div 4
QCeil(q) == -((-q) \div 4)
QRound(q) == IF q >= 0 THEN (q + 2) \div 4 ELSE -((-q + 2) \div 4)

---------------------------------------------------------------------------
(* functions with logic of their own: reference semantics (contract) *)
Initialisms == {   \* golint list, functions.go golintInitialisms
  <<"A","C","L">>, <<"A","P","I">>, <<"A","S","C","I","I">>, <<"C","P","U">>, <<"C","S","S">>, <<"D","N","S">>,
  <<"E","O","F">>, <<"G","U","I","D">>, <<"H","T","M","L">>, <<"H","T","T","P">>, <<"H","T","T","P","S">>,
  <<"I","D">>, <<"I","P">>, <<"J","S","O","N">>, <<"L","H","S">>, <<"Q","P","S">>, <<"R","A","M">>, <<"R","H","S">>,
  <<"R","P","C">>, <<"S","L","A">>, <<"S","M","T","P">>, <<"S","Q","L">>, <<"S","S","H">>, <<"T","C","P">>,
  <<"T","L","S">>, <<"T","T","L">>, <<"U","D","P">>, <<"U","I">>, <<"U","I","D">>, <<"U","U","I","D">>,
  <<"U","R","I">>, <<"U","R","L">>, <<"U","T","F","8">>, <<"V","M">>, <<"X","M","L">>, <<"X","M","P","P">>,
  <<"X","S","R","F">>, <<"X","S","S">> }

\* "returns its input with the first letter upper-cased (or the matching initialism)"
\* a first character that is not a letter (digit, underscore, invalid byte) has no upper case: unchanged
Exported(s) == IF s = <<>> THEN <<>>
               ELSE IF MapSeq(Up, s) \in Initialisms THEN MapSeq(Up, s)
               ELSE <<Up(Head(s))>> \o Tail(s)
\* "reports whether the first character is a lower-case letter"
FirstIsLower(s) == s # <<>> /\ IsLowerRune(Head(s))
FirstUpper(s) == IF s = <<>> THEN <<>> ELSE <<Up(Head(s))>> \o Tail(s)
FirstLower(s) == IF s = <<>> THEN <<>> ELSE <<Lo(Head(s))>> \o Tail(s)
\* A TITLE-case first letter (cased, but neither lower nor upper): "upper-cased" / "lower-cased" may mean
\* mapped (unicode.ToUpper, mockery's Exported) or left alone (xstrings maps only IsLower/IsUpper runes).
TitleFirst(s) == s # <<>> /\ IsLetterRune(Head(s)) /\ ~IsLowerRune(Head(s)) /\ ~IsUpperRune(Head(s)) /\ Up(Head(s)) # Head(s)
CaseFirst(F(_), s) == IF TitleFirst(s) THEN OneOf({s, F(s)}) ELSE S(F(s))
\* does value r satisfy expectation e?
Sat(r, e) == IF e.t = "oneof" THEN r.t = "s" /\ \E x \in e.v : r.v = x ELSE r = e

\* Go integer division truncates towards zero; the remainder has the sign of the dividend
Abs(a) == IF a < 0 THEN -a ELSE a
TDiv(a, b) == LET q == Abs(a) \div Abs(b) IN IF (a < 0) # (b < 0) THEN -q ELSE q
RECURSIVE SumSeq(_)
SumSeq(xs) == IF xs = <<>> THEN 0 ELSE Head(xs) + SumSeq(Tail(xs))
RECURSIVE ProdSeq(_)
ProdSeq(xs) == IF xs = <<>> THEN 1 ELSE Head(xs) * ProdSeq(Tail(xs))
HasZero(xs) == \E i \in DOMAIN xs : xs[i] = 0
\* the remainder r of a by b: |r| < |b|, b divides a - r, r = 0 or sign(r) = sign(a)
Rem(a, b) == CHOOSE r \in (-(Abs(b) - 1))..(Abs(b) - 1) :
               /\ (a - r) % Abs(b) = 0
               /\ (r = 0 \/ (r < 0) = (a < 0))
RECURSIVE RemAll(_, _)
RemAll(a, xs) == IF xs = <<>> THEN a ELSE RemAll(Rem(a, Head(xs)), Tail(xs))

CAdd(xs) == I(SumSeq(xs))
CSub(xs) == I(Head(xs) - SumSeq(Tail(xs)))
CMul(xs) == I(ProdSeq(xs))
\* (a / b) / c with truncation equals a / (b * c) with truncation
CDiv(xs) == IF HasZero(Tail(xs)) THEN Undef ELSE I(TDiv(Head(xs), ProdSeq(Tail(xs))))
CMod(xs) == IF HasZero(Tail(xs)) THEN Undef ELSE I(RemAll(Head(xs), Tail(xs)))
CMin(xs) == IF xs = <<>> THEN Undef ELSE I(CHOOSE m \in RangeOf(xs) : \A x \in RangeOf(xs) : m <= x)

\* readFile over a three-entry file system: "" is documented to yield "", a regular file its bytes
FileContent == <<"a", "ee", "xff", "nl">>
CReadFile(p) == CASE p = "" -> S(<<>>) [] p = "file" -> S(FileContent) [] OTHER -> Err

---------------------------------------------------------------------------
(* the function table: arity/kinds, which argument is the subject, who decides *)
\* subj: index of the subject among the template arguments (0 = none); for every string wrapper the
\* pipeline convention puts it LAST; rot = the Go namesake takes the subject FIRST and the others in order
Table == [
  contains     |-> [kinds |-> <<"s","s">>,         subj |-> 2, rot |-> TRUE,  oracle |-> "spec+std"],
  hasPrefix    |-> [kinds |-> <<"s","s">>,         subj |-> 2, rot |-> TRUE,  oracle |-> "spec+std"],
  hasSuffix    |-> [kinds |-> <<"s","s">>,         subj |-> 2, rot |-> TRUE,  oracle |-> "spec+std"],
  join         |-> [kinds |-> <<"s","l">>,         subj |-> 2, rot |-> TRUE,  oracle |-> "spec+std"],
  replace      |-> [kinds |-> <<"s","s","i","s">>, subj |-> 4, rot |-> TRUE,  oracle |-> "spec+std"],
  replaceAll   |-> [kinds |-> <<"s","s","s">>,     subj |-> 3, rot |-> TRUE,  oracle |-> "spec+std"],
  split        |-> [kinds |-> <<"s","s">>,         subj |-> 2, rot |-> TRUE,  oracle |-> "spec+std"],
  splitAfter   |-> [kinds |-> <<"s","s">>,         subj |-> 2, rot |-> TRUE,  oracle |-> "spec+std"],
  splitAfterN  |-> [kinds |-> <<"s","i","s">>,     subj |-> 3, rot |-> TRUE,  oracle |-> "spec+std"],
  trim         |-> [kinds |-> <<"s","s">>,         subj |-> 2, rot |-> TRUE,  oracle |-> "spec+std"],
  trimLeft     |-> [kinds |-> <<"s","s">>,         subj |-> 2, rot |-> TRUE,  oracle |-> "spec+std"],
  trimPrefix   |-> [kinds |-> <<"s","s">>,         subj |-> 2, rot |-> TRUE,  oracle |-> "spec+std"],
  trimRight    |-> [kinds |-> <<"s","s">>,         subj |-> 2, rot |-> TRUE,  oracle |-> "spec+std"],
  trimSuffix   |-> [kinds |-> <<"s","s">>,         subj |-> 2, rot |-> TRUE,  oracle |-> "spec+std"],
  trimSpace    |-> [kinds |-> <<"s">>,             subj |-> 1, rot |-> FALSE, oracle |-> "spec+std"],
  lower        |-> [kinds |-> <<"s">>,             subj |-> 1, rot |-> FALSE, oracle |-> "spec+std"],
  upper        |-> [kinds |-> <<"s">>,             subj |-> 1, rot |-> FALSE, oracle |-> "spec+std"],
  camelcase    |-> [kinds |-> <<"s">>,             subj |-> 1, rot |-> FALSE, oracle |-> "shape"],
  snakecase    |-> [kinds |-> <<"s">>,             subj |-> 1, rot |-> FALSE, oracle |-> "shape"],
  kebabcase    |-> [kinds |-> <<"s">>,             subj |-> 1, rot |-> FALSE, oracle |-> "shape"],
  firstIsLower |-> [kinds |-> <<"s">>,             subj |-> 1, rot |-> FALSE, oracle |-> "spec"],
  firstLower   |-> [kinds |-> <<"s">>,             subj |-> 1, rot |-> FALSE, oracle |-> "spec"],
  firstUpper   |-> [kinds |-> <<"s">>,             subj |-> 1, rot |-> FALSE, oracle |-> "spec"],
  exported     |-> [kinds |-> <<"s">>,             subj |-> 1, rot |-> FALSE, oracle |-> "spec"],
  matchString  |-> [kinds |-> <<"s","s">>,         subj |-> 2, rot |-> FALSE, oracle |-> "std"],
  quoteMeta    |-> [kinds |-> <<"s">>,             subj |-> 1, rot |-> FALSE, oracle |-> "std"],
  base         |-> [kinds |-> <<"s">>,             subj |-> 1, rot |-> FALSE, oracle |-> "std"],
  clean        |-> [kinds |-> <<"s">>,             subj |-> 1, rot |-> FALSE, oracle |-> "std"],
  dir          |-> [kinds |-> <<"s">>,             subj |-> 1, rot |-> FALSE, oracle |-> "std"],
  readFile     |-> [kinds |-> <<"p">>,             subj |-> 1, rot |-> FALSE, oracle |-> "spec"],
  expandEnv    |-> [kinds |-> <<"s">>,             subj |-> 1, rot |-> FALSE, oracle |-> "std"],
  getenv       |-> [kinds |-> <<"s">>,             subj |-> 1, rot |-> FALSE, oracle |-> "std"],
  add          |-> [kinds |-> <<"i*">>,            subj |-> 0, rot |-> FALSE, oracle |-> "spec"],
  decr         |-> [kinds |-> <<"i">>,             subj |-> 0, rot |-> FALSE, oracle |-> "spec"],
  div          |-> [kinds |-> <<"i*">>,            subj |-> 0, rot |-> FALSE, oracle |-> "spec"],
  incr         |-> [kinds |-> <<"i">>,             subj |-> 0, rot |-> FALSE, oracle |-> "spec"],
  min          |-> [kinds |-> <<"i*">>,            subj |-> 0, rot |-> FALSE, oracle |-> "spec"],
  mod          |-> [kinds |-> <<"i*">>,            subj |-> 0, rot |-> FALSE, oracle |-> "spec"],
  mul          |-> [kinds |-> <<"i*">>,            subj |-> 0, rot |-> FALSE, oracle |-> "spec"],
  sub          |-> [kinds |-> <<"i*">>,            subj |-> 0, rot |-> FALSE, oracle |-> "spec"],
  ceil         |-> [kinds |-> <<"q">>,             subj |-> 0, rot |-> FALSE, oracle |-> "spec+std"],
  floor        |-> [kinds |-> <<"q">>,             subj |-> 0, rot |-> FALSE, oracle |-> "spec+std"],
  round        |-> [kinds |-> <<"q">>,             subj |-> 0, rot |-> FALSE, oracle |-> "spec+std"],
  randInt      |-> [kinds |-> << >>,               subj |-> 0, rot |-> FALSE, oracle |-> "shape"] ]

Documented == DOMAIN Table     \* the documented function map (funcmap.go FuncMap, 44 entries)

\* pipeline convention: whenever a function has a subject, it is the last template argument
SubjectLast == \A f \in Documented : Table[f].subj \in {0, Len(Table[f].kinds)}

Vals(a) == [i \in DOMAIN a |-> a[i].v]

\* the namesake applied to arguments in ITS order
StdCall(f, x) ==
  CASE f = "contains"    -> B(StdContains(x[1], x[2]))
    [] f = "hasPrefix"   -> B(StdHasPrefix(x[1], x[2]))
    [] f = "hasSuffix"   -> B(StdHasSuffix(x[1], x[2]))
    [] f = "join"        -> S(StdJoin(x[1], x[2]))
    [] f = "replace"     -> S(StdReplace(x[1], x[2], x[3], x[4]))
    [] f = "replaceAll"  -> S(StdReplaceAll(x[1], x[2], x[3]))
    [] f = "split"       -> L(StdSplit(x[1], x[2]))
    [] f = "splitAfter"  -> L(StdSplitAfter(x[1], x[2]))
    [] f = "splitAfterN" -> L(StdSplitAfterN(x[1], x[2], x[3]))
    [] f = "trim"        -> S(StdTrim(x[1], x[2]))
    [] f = "trimLeft"    -> S(StdTrimLeft(x[1], x[2]))
    [] f = "trimPrefix"  -> S(StdTrimPrefix(x[1], x[2]))
    [] f = "trimRight"   -> S(StdTrimRight(x[1], x[2]))
    [] f = "trimSuffix"  -> S(StdTrimSuffix(x[1], x[2]))
    [] f = "trimSpace"   -> S(StdTrimSpace(x[1]))
    [] f = "lower"       -> S(StdToLower(x[1]))
    [] f = "upper"       -> S(StdToUpper(x[1]))
    [] f = "ceil"        -> I(QCeil(x[1]))
    [] f = "floor"       -> I(QFloor(x[1]))
    [] f = "round"       -> I(QRound(x[1]))

\* CONTRACT: the documented value of applying template function f to template arguments a
Expect(f, a) ==
  LET x == Vals(a) IN
  CASE Table[f].oracle = "std"   -> Std
    [] Table[f].oracle = "shape" -> Shape
    [] Table[f].oracle = "spec+std" ->
         \* "equal their Go standard-library namesakes with the subject string as last argument"
         StdCall(f, IF Table[f].rot THEN <<Last(x)>> \o Front(x) ELSE x)
    [] \E i \in DOMAIN a : a[i].t = "n" -> Fold64
    [] f = "exported"     -> CaseFirst(Exported, x[1])
    [] f = "firstIsLower" -> B(FirstIsLower(x[1]))
    [] f = "firstUpper"   -> CaseFirst(FirstUpper, x[1])
    [] f = "firstLower"   -> CaseFirst(FirstLower, x[1])
    [] f = "readFile"     -> CReadFile(x[1])
    [] f = "add"  -> CAdd(x)
    [] f = "sub"  -> CSub(x)
    [] f = "mul"  -> CMul(x)
    [] f = "div"  -> CDiv(x)
    [] f = "mod"  -> CMod(x)
    [] f = "min"  -> CMin(x)
    [] f = "incr" -> I(x[1] + 1)
    [] f = "decr" -> I(x[1] - 1)

\* shape invariants for "behave as named" (only what the names safely imply; valid UTF-8 inputs only)
RECURSIVE StripSeps(_)
StripSeps(s) == IF s = <<>> THEN <<>> ELSE (IF IsSep(Head(s)) THEN <<>> ELSE <<Head(s)>>) \o StripSeps(Tail(s))
CaseFold(t) == Lo(Up(t))        \* equal up to case: long s ~ S ~ s, dotless i ~ I ~ i, Kelvin ~ k
Skeleton(s) == MapSeq(CaseFold, StripSeps(s))
AllLowerLetters(s) == \A i \in DOMAIN s : IsLowerRune(s[i])
TwoLowerWords(s) == \E i \in 2..(Len(s) - 1) : /\ IsSep(s[i])
                                                /\ AllLowerLetters(Take(s, i - 1)) /\ AllLowerLetters(Drop(s, i))
ShapeOK(f, a, r) ==
  CASE f = "randInt" -> r.t = "i" /\ r.v >= 0
    [] f \in {"camelcase", "snakecase", "kebabcase"} ->
       LET in == a[1].v  out == r.v IN
       /\ r.t = "s"
       /\ (\E i \in DOMAIN in : IsInvalid(in[i])) \/
          ( /\ Skeleton(out) = Skeleton(in)                      \* only case and separators change
            \* a lower-case word is already in every case (UpperCamelCase is tolerated for camelcase)
            /\ AllLowerLetters(in) => (out = in \/ (f = "camelcase" /\ out = FirstUpper(in)))
            /\ f \in {"snakecase", "kebabcase"} => \A i \in DOMAIN out : out[i] \notin UpperA
            \* words and separators only (punctuation makes xstrings keep the separator that follows it)
            /\ (f = "snakecase" /\ \A i \in DOMAIN in : IsWordRune(in[i])) => \A i \in DOMAIN out : out[i] \notin {" ", "-"}
            /\ (f = "kebabcase" /\ \A i \in DOMAIN in : IsWordRune(in[i])) => \A i \in DOMAIN out : out[i] \notin {" ", "_"}
            /\ (f = "camelcase" /\ TwoLowerWords(in)) => \A i \in DOMAIN out : ~IsSep(out[i])
            \* converting twice is converting once (the log carries f(f(x)) as r.again); strings made of
            \* separators only are left out: xstrings' camelcase grows them by one separator per call
            \* and camelcase altogether: it keeps one of two adjacent separators, so a second pass differs)
            /\ ("again" \in DOMAIN r /\ f # "camelcase" /\ \E i \in DOMAIN in : IsLetterRune(in[i]) \/ in[i] \in Digits)
                  => r.again = out )

\* does a reply (typed value, or Err) recorded from the real code satisfy the contract?
Accepts(f, a, r) ==
  LET e == Expect(f, a) IN
  CASE e.t = "undef" -> TRUE
    [] e.t = "fold64" -> TRUE                \* decided by the harness against the exact left fold
    [] e.t = "std"   -> TRUE                 \* decided by the harness against the namesake
    [] e.t = "shape" -> r.t # "err" /\ ShapeOK(f, a, r)
    [] e.t = "err"   -> r.t = "err"
    [] e.t = "oneof" -> r.t = "s" /\ \E x \in e.v : r.v = x
    [] OTHER         -> r.t = e.t /\ r.v = e.v

---------------------------------------------------------------------------
(* IMPL: the byte model *)
TokBytes(t) == [k \in 1..ByteLen(t) |-> <<t, k>>]
RECURSIVE Bytes(_)
Bytes(s) == IF s = <<>> THEN <<>> ELSE TokBytes(Head(s)) \o Bytes(Tail(s))
RuneError == "RuneError"
\* utf8.DecodeRuneInString
Decode(bs) ==
  IF bs = <<>> THEN [r |-> RuneError, size |-> 0]
  ELSE LET t == bs[1][1] IN
       IF bs[1][2] = 1 /\ ~IsInvalid(t) /\ Len(bs) >= ByteLen(t) /\ \A k \in 1..ByteLen(t) : bs[k] = <<t, k>>
       THEN [r |-> t, size |-> ByteLen(t)]
       ELSE [r |-> RuneError, size |-> 1]
\* bytes back to tokens; a byte that is neither a whole token nor the invalid byte is "bad"
RECURSIVE Tok(_)
Tok(bs) == IF bs = <<>> THEN <<>>
           ELSE LET d == Decode(bs) IN
                IF d.r # RuneError THEN <<d.r>> \o Tok(Drop(bs, d.size))
                ELSE IF bs[1] = <<"xff", 1>> THEN <<"xff">> \o Tok(Tail(bs))
                ELSE <<"bad">> \o Tok(Tail(bs))
\* strings.ToUpper on a byte string (via strings.Map: undecodable bytes become U+FFFD)
RECURSIVE BytesToUpper(_)
BytesToUpper(bs) == IF bs = <<>> THEN <<>>
                    ELSE LET d == Decode(bs) IN
                         IF d.r # RuneError THEN TokBytes(Up(d.r)) \o BytesToUpper(Drop(bs, d.size))
                         ELSE TokBytes("fffd") \o BytesToUpper(Tail(bs))

\* functions.go:13-28
ImplExported(s) ==
  LET bs == Bytes(s) IN
  IF bs = <<>> THEN <<>>
  ELSE IF Tok(BytesToUpper(bs)) \in Initialisms THEN Tok(BytesToUpper(bs))
  ELSE IF ExportedImpl \in {"rune", "upsize"}
       THEN LET d == Decode(bs) IN
            IF d.r = RuneError /\ d.size <= 1 THEN s
            ELSE IF ExportedImpl = "rune" THEN Tok(TokBytes(Up(d.r)) \o Drop(bs, d.size))
            \* seeded C16-r3m1: one buffer, append upper, then s[len(buf):] (skips the UPPER rune's size)
            ELSE Tok(TokBytes(Up(d.r)) \o Drop(bs, ByteLen(Up(d.r))))
       ELSE Tok(BytesToUpper(Take(bs, 1)) \o Drop(bs, 1))      \* strings.ToUpper(s[0:1]) + s[1:]

\* rune(s[0]) of the old code reads the first BYTE as a Latin-1 code point
Latin1Class(b) == CASE b[2] = 1 /\ ByteLen(b[1]) = 1 /\ ~IsInvalid(b[1]) ->
                         (IF IsLowerRune(b[1]) THEN "lower" ELSE IF IsUpperRune(b[1]) THEN "upper" ELSE "other")
                    [] b[1] \in {"ee", "EE"} /\ b[2] = 1 -> "upper"     \* 0xC3 = A-tilde
                    [] b[1] = "zh" /\ b[2] = 1 -> "lower"                \* 0xE4 = a-umlaut
                    [] b[1] = "xff" -> "lower"                           \* 0xFF = y-umlaut
                    [] OTHER -> "other"
\* functions.go:111-120
ImplFirstIsLower(s) ==
  LET bs == Bytes(s) IN
  IF ExportedImpl \in {"rune", "upsize"}
  THEN IF Len(bs) = 0 THEN B(FALSE)
       ELSE LET d == Decode(bs) IN B(d.r # RuneError /\ IsLowerRune(d.r))
  ELSE IF Len(bs) = 0 THEN Err                                    \* s[0] on "": index panic, recovered
       ELSE IF Latin1Class(bs[1]) = "other" THEN B(FALSE) ELSE B(Latin1Class(bs[1]) # "upper")

\* functions.go:47-107: left folds with Go's int operators
GoOp(op, a, b) == CASE op = "add" -> a + b
                     [] op = "sub" -> a - b
                     [] op = "mul" -> a * b
                     [] op = "div" -> TDiv(a, b)
                     [] op = "mod" -> a - b * TDiv(a, b)
                     [] op = "min" -> IF b < a THEN b ELSE a
RECURSIVE Fold(_, _, _)
Fold(op, acc, xs) == IF xs = <<>> THEN acc ELSE Fold(op, GoOp(op, acc, Head(xs)), Tail(xs))
ImplArith(f, xs) ==
  CASE f = "add" -> I(Fold("add", Head(xs), Tail(xs)))
    [] f = "sub" -> I(Fold("sub", Head(xs), Tail(xs)))
    [] f = "mul" -> I(Fold("mul", Head(xs), Tail(xs)))
    [] f = "div" -> IF HasZero(Tail(xs)) THEN Undef ELSE I(Fold("div", Head(xs), Tail(xs)))   \* runtime panic, recovered
    [] f = "mod" -> IF HasZero(Tail(xs)) THEN Undef ELSE I(Fold("mod", Head(xs), Tail(xs)))
    [] f = "min" -> IF xs = <<>> THEN Undef ELSE I(Fold("min", Head(xs), Tail(xs)))           \* slices.Min panics on empty
    [] f = "incr" -> I(xs[1] + 1)
    [] f = "decr" -> I(xs[1] - 1)

\* funcmap.go:27-90, one line per entry: which namesake is called with which permutation
ImplCall(f, a) ==
  LET x == Vals(a) IN
  CASE f = "contains"    -> StdCall("contains",    <<x[2], x[1]>>)
    [] f = "hasPrefix"   -> StdCall("hasPrefix",   <<x[2], x[1]>>)
    [] f = "hasSuffix"   -> StdCall("hasSuffix",   <<x[2], x[1]>>)
    [] f = "join"        -> StdCall("join",        <<x[2], x[1]>>)
    [] f = "replace"     -> StdCall("replace",     <<x[4], x[1], x[2], x[3]>>)
    [] f = "replaceAll"  -> StdCall("replaceAll",  <<x[3], x[1], x[2]>>)
    [] f = "split"       -> StdCall("split",       <<x[2], x[1]>>)
    [] f = "splitAfter"  -> StdCall("splitAfter",  <<x[2], x[1]>>)
    [] f = "splitAfterN" -> StdCall("splitAfterN", <<x[3], x[1], x[2]>>)
    [] f = "trim"        -> StdCall("trim",        <<x[2], x[1]>>)
    [] f = "trimLeft"    -> StdCall("trimLeft",    <<x[2], x[1]>>)
    [] f = "trimPrefix"  -> StdCall("trimPrefix",  <<x[2], x[1]>>)
    [] f = "trimRight"   -> StdCall("trimRight",   <<x[2], x[1]>>)
    [] f = "trimSuffix"  -> StdCall("trimSuffix",  <<x[2], x[1]>>)
    [] f \in {"trimSpace", "lower", "upper", "ceil", "floor", "round"} -> StdCall(f, x)
    [] f = "exported"     -> S(ImplExported(x[1]))
    [] f = "firstIsLower" -> ImplFirstIsLower(x[1])
    [] f = "firstUpper"   -> S(FirstUpper(x[1]))       \* xstrings.FirstRuneToUpper (third party; not modelled deeper)
    [] f = "firstLower"   -> S(FirstLower(x[1]))
    [] f = "readFile"     -> CReadFile(x[1])
    [] \E i \in DOMAIN a : a[i].t = "n" -> Fold64        \* same left fold, in int64 (functions.go:47-107)
    [] f \in {"add", "sub", "mul", "div", "mod", "min", "incr", "decr"} -> ImplArith(f, x)
    [] Table[f].oracle = "std" -> Std
    [] Table[f].oracle = "shape" -> Shape

---------------------------------------------------------------------------
(* the state machine: one behaviour per argument tuple.  Which tuples: FuncLibMC!CaseChoice, a      *)
(* predicate (not a set: TLC would pre-evaluate and normalise a constant set of 10^5 records).    *)
InitWith(choice) == /\ choice
                    /\ phase = "call"
                    /\ reply = [t |-> "none"]

Call == /\ phase = "call"
        /\ reply' = ImplCall(fn, args)
        /\ phase' = "done"
        /\ UNCHANGED <<fn, args>>

Next == Call

TypeOK == fn \in Documented /\ phase \in {"call", "done"}
\* Impl => Contract on every enumerated tuple
ImplMatchesContract == phase = "done" => Sat(reply, Expect(fn, args))
ASSUME TableOK == SubjectLast /\ Cardinality(Documented) = 44

RECURSIVE SetToSeq(_)
SetToSeq(X) == IF X = {} THEN <<>> ELSE LET x == CHOOSE x \in X : TRUE IN <<Norm(x)>> \o SetToSeq(X \ {x})
JArg(a) == IF a.t = "oneof" THEN [t |-> "oneof", v |-> SetToSeq(a.v)] ELSE
           IF a.t \in {"s"} THEN [t |-> a.t, v |-> Norm(a.v)]
           ELSE IF a.t = "l" THEN [t |-> "l", v |-> [i \in 1..Len(a.v) |-> Norm(a.v[i])]]
           ELSE a
Emit == phase = "done" =>
          PrintT(<<"CASE", ToJson([fn |-> fn, args |-> [i \in 1..Len(args) |-> JArg(args[i])],
                                   expect |-> JArg(Expect(fn, args)),
                                   oracle |-> Table[fn].oracle, subj |-> Table[fn].subj, rot |-> Table[fn].rot])>>)
=============================================================================
